"""C04 — totality: panic-edge inventory with re-verified guards (recursion budget: R18.3/R18.4)."""
import json
import os
import re

from engine import rule, AnchorLost, VERIF
from model import Super, strace, fn_of, trace, is_place, site, const_value
import common


def kind_of_call(f):
    d, n = f["def"], f["name"]
    if d.startswith("core::panicking") or d.startswith("std::rt::begin_panic") or d.startswith("std::rt::panic") or d.startswith("std::panicking"):
        return "call:panic:" + n
    if f.get("trait", "") in ("std::ops::Index", "std::ops::IndexMut") and n in ("index", "index_mut"):
        return "call:index:" + (f["args"][1] if len(f.get("args", [])) > 1 else "?")
    if n in ("unwrap", "expect", "unwrap_err", "expect_err") and (d.startswith("std::option::Option") or d.startswith("std::result::Result")):
        return "call:" + d.split("::")[2].split("<")[0].lower() + "." + n
    if n in ("split_at", "split_at_mut", "copy_from_slice", "clone_from_slice", "drain", "split_off", "swap_remove", "remove", "insert", "swap", "rotate_left", "rotate_right", "chunks_exact", "windows", "chunks", "step_by") and (d.startswith("core::slice") or d.startswith("std::vec::Vec") or d.startswith("std::string::String") or d.startswith("std::collections")):
        return "call:" + n
    if n in ("to_owned",) and False:
        return None
    if d in ("std::option::Option::<T>::unwrap_unchecked",):
        return "call:" + n
    if n == "abort" and d.startswith("std::process"):
        return "call:abort"
    return None


def _overflow_ty(b, t):
    """`:u8` for the overflow check of a u8 addition: arithmetic in a narrower type is a different obligation from
    the same arithmetic in usize, so the reviewed multiset keeps them apart."""
    if not t["msg"].startswith("overflow:"):
        return ""
    cond = t.get("cond")
    if cond and is_place(cond) and cond["p"]["pr"]:
        m = re.match(r"^\((\w+), bool\)$", b.local_ty(cond["p"]["l"]))
        if m:
            return ":" + m.group(1)
    return ""


def panic_edges(crate):
    """{function: {kind: [lines]}} of panic-capable MIR edges."""
    out = {}
    for b in crate.bodies:
        ks = {}
        for bi in sorted(b.reach()):
            t = b.blocks[bi]["term"]
            if t["k"] == "assert":
                ks.setdefault("assert:" + t["msg"] + _overflow_ty(b, t), []).append((bi, t["line"]))
            elif t["k"] == "call":
                f = fn_of(t)
                if f:
                    k = kind_of_call(f)
                    if k:
                        ks.setdefault(k + ("~" if t.get("exp") else ""), []).append((bi, t["line"]))
                    if f.get("diverges") and not k and not f.get("local") and f["def"] != "std::process::exit":
                        ks.setdefault("call:diverging:" + f["def"], []).append((bi, t["line"]))
        if ks:
            out[b.id] = ks
    return out


def _reviewed():
    return json.load(open(os.path.join(VERIF, "tables", "panic_sites.json")))["reviewed"]


# spellings of one obligation ("the split point / bound is at most the slice's length")
SLICE_BOUND = ("call:index:std::ops::RangeTo<usize>", "call:index:std::ops::RangeFrom<usize>", "call:split_at", "call:split_at_mut")


# --------------------------------------------------------------------------- local proofs
#
# A panic-capable edge that a small local argument proves dead is not counted against the reviewed table
# (and the table holds only edges that need a human argument). Three arguments are implemented; each is
# sound on its own and names the facts it used.


def _len_of(b, op):
    """The slice local whose length `op` holds (`PtrMetadata(x)` or `x.len()`), traced to its root local."""
    if not is_place(op) or op["p"]["pr"]:
        return None
    ds = b.whole_defs(op["p"]["l"])
    if len(ds) != 1:
        return None
    _, _, kind, payload = ds[0]
    src = None
    if kind == "assign" and payload["rv"]["k"] == "unop" and payload["rv"]["op"] == "PtrMetadata":
        src = payload["rv"]["a"]
    elif kind == "assign" and payload["rv"]["k"] == "use" and is_place(payload["rv"]["op"]):
        return _len_of(b, payload["rv"]["op"])
    elif kind == "call" and (fn_of(payload) or {}).get("name") == "len" and (fn_of(payload) or {}).get("def", "").startswith("core::slice") and payload["args"]:
        src = payload["args"][0]
    if src is None:
        return None
    return _slice_root(b, src)


def _slice_root(b, op, depth=0):
    """Root local of a slice operand through copies and plain reborrows (`&*x`, `&mut *x`)."""
    if not is_place(op) or depth > 8:
        return None
    p = op["p"]
    if p["pr"]:
        return None
    ds = b.whole_defs(p["l"])
    if len(ds) == 1 and ds[0][2] == "assign":
        rv = ds[0][3]["rv"]
        if rv["k"] == "use" and is_place(rv["op"]) and not rv["op"]["p"]["pr"]:
            return _slice_root(b, rv["op"], depth + 1)
        if rv["k"] in ("ref", "copyforderef") and [e["k"] for e in rv["p"]["pr"]] in (["deref"], []):
            return _slice_root(b, {"k": "copy", "p": {"l": rv["p"]["l"], "pr": []}}, depth + 1)
    return p["l"]


SLICING = ("std::ops::Index", "std::ops::IndexMut")


def _subslice_of(b, y, x, seen=None):
    """Every definition of local y yields x itself or a sub-slice of a sub-slice of x."""
    if y == x:
        return True
    seen = seen or set()
    if y in seen:
        return True  # a cycle through y itself (loop-carried `rest = &rest[n..]`)
    seen = seen | {y}
    ds = b.whole_defs(y)
    if not ds:
        return False
    for _, _, kind, payload in ds:
        if kind == "assign":
            rv = payload["rv"]
            if rv["k"] == "use" and is_place(rv["op"]) and not rv["op"]["p"]["pr"]:
                if not _subslice_of(b, rv["op"]["p"]["l"], x, seen):
                    return False
            elif rv["k"] in ("ref", "copyforderef") and [e["k"] for e in rv["p"]["pr"]] in (["deref"], []):
                if not _subslice_of(b, rv["p"]["l"], x, seen):
                    return False
            else:
                return False
        elif kind == "call":
            f = fn_of(payload) or {}
            if f.get("trait") in SLICING and "Range" in " ".join(f.get("args", [])) and payload["args"] and is_place(payload["args"][0]) and not payload["args"][0]["p"]["pr"]:
                if not _subslice_of(b, payload["args"][0]["p"]["l"], x, seen):
                    return False
            else:
                return False
        else:
            return False
    return True


def _min_with_len_of(b, op, recv_root, at_bb=None, _depth=0):
    """`op` is min(len(recv), _) (std::cmp::min or Ord::min), recv being the slice with root local recv_root."""
    # `head.len()` with `(head, _) = x.split_at(m)`: the head's length is m
    hl = _len_of(b, op)
    if hl is not None and _depth < 3:
        hd = b.whole_defs(hl)
        if len(hd) == 1 and hd[0][2] == "assign" and hd[0][3]["rv"]["k"] == "use" and is_place(hd[0][3]["rv"]["op"]):
            hp = hd[0][3]["rv"]["op"]["p"]
            if len(hp["pr"]) == 1 and hp["pr"][0]["k"] == "field" and hp["pr"][0].get("i", hp["pr"][0].get("name")) in (0, "0"):
                td = b.whole_defs(hp["l"])
                if len(td) == 1 and td[0][2] == "call" and kind_of_call(fn_of(td[0][3]) or {}) in ("call:split_at", "call:split_at_mut") and len(td[0][3]["args"]) == 2:
                    # the head is bound once, in the block the split returns to (every path from the split to the
                    # use binds it anew); the split point must satisfy the claim where the split is made
                    sb = td[0][0]
                    if _min_with_len_of(b, td[0][3]["args"][1], recv_root, sb, _depth + 1) and not _redefined_between(b, (recv_root,), sb, at_bb) and hd[0][0] == td[0][3].get("target"):
                        return True
    # the value a same-crate helper returns for this very slice: `n = self.copy_into(buf)?` where every value the
    # helper returns is min(buf.len(), ..) of its own parameter
    if _depth < 3 and recv_root is not None and at_bb is not None:
        hr = trace(b, op, passthrough_extra=("std::ops::Try::branch",))
        if hr.origin and hr.origin[0] == "call" and all(s_[0] in ("use", "call") or s_ == ("field", "0", "std::ops::ControlFlow") or s_ == ("downcast", "Continue") for s_ in hr.steps):
            hf = fn_of(hr.origin[2]) or {}
            callee = b.crate.by_id.get(hf.get("resolved") or hf.get("def")) if hf.get("local") else None
            if callee is not None and callee.id != b.id:
                via_try = any(s_ == ("downcast", "Continue") for s_ in hr.steps)
                pidx = [i for i, a in enumerate(hr.origin[2]["args"]) if _slice_root(b, a) == recv_root]
                if len(pidx) == 1 and _returns_min_of_param(callee, pidx[0] + 1, via_try, _depth) and not _redefined_between(b, (recv_root,), hr.origin[1], at_bb):
                    return True
    tr = trace(b, op)
    if not (tr.origin and tr.origin[0] == "call" and all(s_[0] == "use" for s_ in tr.steps)):
        return False
    f = fn_of(tr.origin[2]) or {}
    if f.get("def") not in ("std::cmp::min", "std::cmp::Ord::min"):
        return False
    if not any(_len_of(b, a) == recv_root and recv_root is not None for a in tr.origin[2]["args"]):
        return False
    # the slice variable must not be re-pointed between taking the minimum and using it
    mb = tr.origin[1]
    for db, _, _, _ in b.whole_defs(recv_root):
        if at_bb is None:
            return False
        if db == at_bb or (db != mb and db in b.reachable_from(mb, removed_nodes=[at_bb]) and at_bb in b.reachable_from(db, removed_nodes=[mb])):
            return False
    return True


def _returns_min_of_param(callee, p, via_try, _depth=0):
    """Every value the helper returns (`x`, or `Ok(x)` when the caller unwraps it with `?`) is min(len(param p), ..)."""
    good = 0
    for db, _, kind, payload in callee.whole_defs(0):
        if kind == "call":
            cf = fn_of(payload) or {}
            if via_try and cf.get("def") == "std::ops::FromResidual::from_residual":
                continue  # the error return of a `?`
            return False
        if kind != "assign":
            return False
        rv = payload["rv"]
        if via_try and rv["k"] == "aggregate" and rv.get("variant") == "Err":
            continue
        if via_try and rv["k"] == "aggregate" and rv.get("variant") == "Ok" and len(rv["ops"]) == 1:
            x = rv["ops"][0]
        elif not via_try and rv["k"] == "use":
            x = rv["op"]
        else:
            return False
        if not _min_with_len_of(callee, x, p, db, _depth + 1):
            return False
        good += 1
    return good > 0


_IV = {}


def _stable_root(b, op):
    """The local an integer operand is a plain copy of, provided that local is assigned at most once and is
    never mutably borrowed (so every copy of it anywhere in the body has the same value); else None."""
    cur = op
    for _ in range(6):
        if not is_place(cur) or cur["p"]["pr"]:
            return None
        l = cur["p"]["l"]
        ds = b.whole_defs(l)
        if len(ds) == 1 and ds[0][2] == "assign" and ds[0][3]["rv"]["k"] == "use" and is_place(ds[0][3]["rv"]["op"]) and not ds[0][3]["rv"]["op"]["p"]["pr"]:
            cur = ds[0][3]["rv"]["op"]
            continue
        is_param = 1 <= l <= b.nargs
        if len(ds) > 1 or (is_param and ds) or (not is_param and not ds):
            return None
        for blk in b.blocks:
            for s_ in blk["stmts"]:
                if s_["k"] == "assign" and s_["rv"]["k"] in ("ref", "rawptr") and s_["rv"].get("mut", True) and s_["rv"]["p"]["l"] == l:
                    return None
                if s_["k"] == "assign" and s_["p"]["l"] == l and s_["p"]["pr"]:
                    return None
        return l
    return None


def _redefined_between(b, roots, start, at):
    """One of the locals `roots` can be assigned again on a path from block `start` to block `at` (a loop that
    re-binds the `let`): what was established about it at `start` would be stale at `at`."""
    for r in roots:
        for db, _, _, _ in b.whole_defs(r):
            if db == at:
                continue
            if (db == start or db in b.reachable_from(start, removed_nodes=[at])) and at in b.reachable_from(db):
                return True
    return False


def _split_of_indexed_prefix(b, bi, t):
    """`x[..e].split_at(min(e, _))` (or `.split_at(e)`): the receiver is a prefix of length exactly `e`, taken by
    an index expression whose own bound check already passed, and the split point is at most `e`."""
    recv = t["args"][0]
    cur = recv
    src = None
    for _ in range(6):
        if not is_place(cur) or cur["p"]["pr"]:
            return None
        ds = b.whole_defs(cur["p"]["l"])
        if len(ds) != 1:
            return None
        db, _, kind, payload = ds[0]
        if kind == "call":
            src = (db, payload)
            break
        rv = payload["rv"]
        if rv["k"] == "use" and is_place(rv["op"]):
            cur = rv["op"]
        elif rv["k"] in ("ref", "copyforderef") and [e_["k"] for e_ in rv["p"]["pr"]] in (["deref"], []):
            cur = {"k": "copy", "p": {"l": rv["p"]["l"], "pr": []}}
        else:
            return None
    if src is None:
        return None
    ib, it = src
    f = fn_of(it) or {}
    if not ((kind_of_call(f) or "").startswith("call:index:std::ops::RangeTo<") and len(it["args"]) == 2):
        return None
    rt = trace(b, it["args"][1])
    if not (rt.origin and rt.origin[0] == "agg" and rt.origin[1]["rv"]["ops"]):
        return None
    e_root = _stable_root(b, rt.origin[1]["rv"]["ops"][0])
    if e_root is None:
        return None
    # the split point: e itself, or min(e, _)
    pt = trace(b, t["args"][1])
    cands = []
    mb = None
    if pt.origin and pt.origin[0] == "call" and (fn_of(pt.origin[2]) or {}).get("def") in ("std::cmp::min", "std::cmp::Ord::min") and all(s_[0] == "use" for s_ in pt.steps):
        cands = [_stable_root(b, a_) for a_ in pt.origin[2]["args"]]
        mb = pt.origin[1]
    else:
        cands = [_stable_root(b, t["args"][1])]
        mb = bi
    if e_root not in cands:
        return None
    # `e` is not re-bound between taking the minimum, indexing and splitting
    first = mb if mb is not None else ib
    if _redefined_between(b, (e_root,), first, bi) or _redefined_between(b, (e_root,), ib, bi):
        return None
    return f"split point is at most `{b.local_name(e_root) or e_root}`, the length of the indexed prefix it splits"


def _ordered_by_guard(b, bi, a, c):
    """`a - c` cannot underflow because a comparison of the same two (immutable) values, taken on an edge that
    dominates the subtraction, established a >= c (`if a <= c { return }`, `if c < a { .. a - c .. }`, ...)."""
    ra, rc = _stable_root(b, a), _stable_root(b, c)
    if ra is None or rc is None or ra == rc:
        return None
    for sb in sorted(b.reach()):
        blk = b.blocks[sb]
        sw = blk["term"]
        if sw["k"] != "switch" or sw.get("discr_ty") != "bool" or not is_place(sw["discr"]):
            continue
        dl = sw["discr"]["p"]["l"]
        cmp_ = [s_ for s_ in blk["stmts"] if s_["k"] == "assign" and not s_["p"]["pr"] and s_["p"]["l"] == dl and s_["rv"]["k"] == "binop" and s_["rv"]["op"] in ("Le", "Lt", "Ge", "Gt")]
        if not cmp_:
            continue
        rv = cmp_[-1]["rv"]
        x, y = _stable_root(b, rv["a"]), _stable_root(b, rv["b"])
        if {x, y} != {ra, rc} or None in (x, y):
            continue
        opn = rv["op"]
        if x == rc:
            # normalise to a comparison `a ? c`
            opn = {"Le": "Ge", "Lt": "Gt", "Ge": "Le", "Gt": "Lt"}[opn]
        zero = [t_ for v_, t_ in sw["targets"] if v_ == 0]
        edges = []
        if opn in ("Ge", "Gt"):
            edges.append((sb, "otherwise", sw["otherwise"]))  # comparison true: a >= c
        elif zero:
            edges.append((sb, 0, zero[0]))  # `a <= c` / `a < c` false: a > c / a >= c
        for e in edges:
            if b.edge_dominates(e[0], e[1], e[2], bi) and not _redefined_between(b, (ra, rc), e[2], bi):
                return f"guarded subtraction: the edge at line {blk['term'].get('line')} establishes `{b.local_name(ra) or ra}` >= `{b.local_name(rc) or rc}` for the same immutable values"
    return None


def _block_bases(b, bi, local, _seen=None):
    """The non-constant places outside block bi's own temporaries that the value of `local` (computed by the
    statements of block bi from casts and arithmetic) depends on; None when something else feeds it."""
    blk = b.blocks[bi]
    defs = {}
    for s_ in blk["stmts"]:
        if s_["k"] == "assign" and not s_["p"]["pr"]:
            defs[s_["p"]["l"]] = s_["rv"]
    out = []
    seen = set()

    def visit_op(o):
        if o.get("k") == "const":
            return True
        if not is_place(o):
            return False
        p_ = o["p"]
        if not p_["pr"] and p_["l"] in defs:
            return visit(p_["l"])
        if not p_["pr"]:
            # a temporary computed once in an earlier block by a cast or copy
            wd = b.whole_defs(p_["l"])
            if len(wd) == 1 and wd[0][2] == "assign" and wd[0][3]["rv"]["k"] in ("use", "cast") and wd[0][0] != bi and (p_["l"], "x") not in seen:
                seen.add((p_["l"], "x"))
                return visit_op(wd[0][3]["rv"]["op"])
        key = (p_["l"], json.dumps(p_["pr"], sort_keys=True))
        if key not in seen:
            seen.add(key)
            out.append((p_["l"], p_["pr"]))
        return True

    def visit(l):
        rv = defs[l]
        if rv["k"] in ("use", "cast"):
            return visit_op(rv["op"])
        if rv["k"] == "binop":
            return visit_op(rv["a"]) and visit_op(rv["b"])
        if rv["k"] == "unop":
            return visit_op(rv["a"])
        return False

    if local not in defs or not visit(local):
        return None
    return out


def _option_known_some(b, bi, op):
    """Reason when the Option operand unwrapped at block bi is Some on every path: it is the local O itself or
    `O.take()`, an edge on which O was tested Some (is_none false / is_some true / its discriminant) lies on every
    path here, and nothing may have written O since."""
    tr = trace(b, op)
    taker = None
    o = None
    if tr.origin and tr.origin[0] == "call" and (fn_of(tr.origin[2]) or {}).get("def") == "std::option::Option::<T>::take" and all(s_[0] == "use" for s_ in tr.steps):
        taker = tr.origin[1]
        o = _ref_local(b, tr.origin[2]["args"][0])
    elif is_place(op) and not op["p"]["pr"]:
        o = _copy_root(b, op["p"]["l"])
    if o is None or not b.local_ty(o).startswith("std::option::Option<"):
        return None
    # blocks that may write O: its definitions and every call that is handed `&mut O` (other than the take itself)
    writers = {db for db, _, _, _ in b.whole_defs(o)}
    for cb_, ct_ in b.calls():
        if cb_ == taker:
            continue
        for a_ in ct_["args"]:
            if is_place(a_) and not a_["p"]["pr"] and b.local_ty(a_["p"]["l"]).startswith("&mut ") and _ref_local(b, a_) == o:
                writers.add(cb_)
    for sb in sorted(b.reach()):
        sw = b.blocks[sb]["term"]
        if sw["k"] != "switch" or not is_place(sw["discr"]) or sw["discr"]["p"]["pr"]:
            continue
        dt = trace(b, sw["discr"])
        some_edge = None
        zero = [x for v, x in sw["targets"] if v == 0]
        if dt.origin and dt.origin[0] == "call" and (fn_of(dt.origin[2]) or {}).get("def") in ("std::option::Option::<T>::is_none", "std::option::Option::<T>::is_some") and dt.origin[2]["args"] and _ref_local(b, dt.origin[2]["args"][0]) == o and zero:
            some_edge = (sb, zero[0]) if fn_of(dt.origin[2])["name"] == "is_none" else (sb, sw["otherwise"])
        else:
            for s_ in b.blocks[sb]["stmts"]:
                if s_["k"] == "assign" and not s_["p"]["pr"] and s_["p"]["l"] == sw["discr"]["p"]["l"] and s_["rv"]["k"] == "discr" and not s_["rv"]["p"]["pr"] and s_["rv"]["p"]["l"] == o:
                    one = [x for v, x in sw["targets"] if v == 1]
                    some_edge = (sb, one[0]) if one else ((sb, sw["otherwise"]) if zero else None)
        if some_edge is None:
            continue
        starts = [0] + sorted(writers)
        target = taker if taker is not None else bi
        if target not in b.reachable_from(starts, removed_edges=[some_edge]):
            return f"`{b.local_name(o) or o}` was tested to be Some on every path here and is not written in between"
        # the test may sit under a condition that the unwrapping arm repeats (`if let Stdin = input { if o.is_none() ..`
        # and later `match input { Stdin => o.take().expect(..)`): decided path-sensitively, for an Option that is only
        # written outside loops
        if all(not b.on_cycle(w) for w in writers):
            from model import PathSens

            sup = Super(b.crate, b, depth=0)
            ps = PathSens(sup)
            lab = [v for v, x in sw["targets"] if x == some_edge[1]]
            label = lab[0] if lab else "otherwise"
            if ps.edge_dominates(((), sb), label, ((), some_edge[1]), ((), target)) and not ps.overflow:
                return f"`{b.local_name(o) or o}` was tested to be Some on every feasible path here (path-sensitive) and is only written outside loops"
    return None


def _ref_local(b, op):
    """The local behind a `&`/`&mut` operand (through copies and reborrows), or None."""
    cur = op
    for _ in range(6):
        if not is_place(cur) or cur["p"]["pr"]:
            return None
        ds = b.whole_defs(cur["p"]["l"])
        if len(ds) != 1 or ds[0][2] != "assign":
            return None
        rv = ds[0][3]["rv"]
        if rv["k"] == "ref":
            pr = [e for e in rv["p"]["pr"] if e["k"] != "deref"]
            if pr:
                return None
            if not rv["p"]["pr"]:
                return rv["p"]["l"]
            cur = {"k": "copy", "p": {"l": rv["p"]["l"], "pr": []}}
            continue
        if rv["k"] == "use":
            cur = rv["op"]
            continue
        return None
    return None


def local_proof(b, bi):
    """Reason string when the panic-capable terminator of block bi is dead by a local argument, else None."""
    import ival

    t = b.blocks[bi]["term"]
    if t["k"] == "assert" and t["msg"].startswith("overflow:"):
        op = t["msg"].split(":")[1]
        cond = t.get("cond")
        if not (cond and is_place(cond) and cond["p"]["pr"]):
            return None
        tup = cond["p"]["l"]
        st = [s_ for s_ in b.blocks[bi]["stmts"] if s_["k"] == "assign" and not s_["p"]["pr"] and s_["p"]["l"] == tup and s_["rv"]["k"] == "binop"]
        if not st:
            return None
        a, c = st[-1]["rv"]["a"], st[-1]["rv"]["b"]
        if op == "Sub":
            la, lc = _len_of(b, a), _len_of(b, c)
            if la is not None and lc is not None and _subslice_of(b, lc, la):
                return f"len(x) - len(y) with y a sub-slice of x (`{b.local_name(la) or la}` / `{b.local_name(lc) or lc}`)"
            why = _ordered_by_guard(b, bi, a, c)
            if why:
                return why
        if b.id not in _IV:
            _IV[b.id] = ival.for_body(b)
        iv = _IV[b.id]
        A, C = iv.at_call(bi, a), iv.at_call(bi, c)
        if A and C:
            (alo, ahi), (clo, chi) = ival.bounds(A), ival.bounds(C)
            ty = b.local_ty(tup).strip("()").split(",")[0].strip()
            r = ival.INT_RANGE.get(ty)
            if r:
                if op == "Sub" and alo - chi >= r[0]:
                    return f"interval proof: [{alo},{ahi}] - [{clo},{chi}] stays in {ty}"
                if op == "Add" and ahi + chi <= r[1] and alo + clo >= r[0]:
                    return f"interval proof: [{alo},{ahi}] + [{clo},{chi}] stays in {ty}"
                if op == "Mul" and ahi * chi <= r[1] and alo >= 0 and clo >= 0:
                    return f"interval proof: [{alo},{ahi}] * [{clo},{chi}] stays in {ty}"
        return None
    if t["k"] == "assert" and t["msg"] in ("misaligned", "nullptr"):
        # the debug-build pointer checks before a write through `Box::new_uninit()`'s pointer (`vec![x]`, `Box::new`
        # lowering): the checked address is the Box's own pointer, non-null and aligned for its pointee by the type's
        # validity invariant
        cond = t.get("cond")
        if cond and is_place(cond) and not cond["p"]["pr"]:
            bases = _block_bases(b, bi, cond["p"]["l"])
            if bases is not None and len(bases) == 1:
                l_, pr_ = bases[0]
                if b.local_ty(l_).startswith("std::boxed::Box<") and [e["k"] for e in pr_] == ["field", "field"] and pr_[-1].get("name") == "pointer":
                    return "the checked address is the pointer of a live Box (non-null and aligned by the type's invariant)"
        return None
    if t["k"] == "call":
        f = fn_of(t) or {}
        k = kind_of_call(f) or ""
        if k in ("call:split_at", "call:split_at_mut") and len(t["args"]) == 2:
            root = _slice_root(b, t["args"][0])
            if _min_with_len_of(b, t["args"][1], root, bi):
                return "split point is min(len(slice), ..) of the same slice"
            why = _split_of_indexed_prefix(b, bi, t)
            if why:
                return why
        if k.startswith("call:index:std::ops::RangeTo<") or k.startswith("call:index:std::ops::RangeFrom<"):
            root = _slice_root(b, t["args"][0])
            tr = trace(b, t["args"][1])
            if tr.origin and tr.origin[0] == "agg" and tr.origin[1]["rv"]["ops"] and _min_with_len_of(b, tr.origin[1]["rv"]["ops"][0], root, bi):
                return "range bound is min(len(slice), ..) of the same slice"
        if k.startswith("call:index:std::ops::RangeTo<") or k.startswith("call:index:std::ops::RangeFrom<"):
            # the count that std's own in-memory reader (io::Cursor, &[u8]) reported for a read into this very slice:
            # both clamp to the destination's length (trusted base: the standard library)
            root = _slice_root(b, t["args"][0])
            tr = trace(b, t["args"][1])
            if root is not None and tr.origin and tr.origin[0] == "agg" and tr.origin[1]["rv"]["ops"]:
                ct = trace(b, tr.origin[1]["rv"]["ops"][0], passthrough_extra=("std::ops::Try::branch",))
                if ct.origin and ct.origin[0] == "call" and any(s_[0] == "downcast" and s_[1] in ("Ok", "Continue") for s_ in ct.steps):
                    rf = fn_of(ct.origin[2]) or {}
                    sty = (rf.get("self_ty") or "")
                    if rf.get("trait") == "std::io::Read" and rf.get("name") == "read" and (sty.startswith("std::io::Cursor<") or sty in ("&[u8]",)) and len(ct.origin[2]["args"]) == 2 and _slice_root(b, ct.origin[2]["args"][1]) == root and not _redefined_between(b, (root,), ct.origin[1], bi):
                        return f"bound is the byte count std's {sty.split('<')[0]} reported for a read into this very slice (it clamps to the slice's length)"
        if k.startswith("call:index:std::ops::RangeTo<") or k.startswith("call:index:std::ops::RangeFrom<"):
            # the very same slicing (same slice, same bound, neither assigned in between) already succeeded on the
            # way here: had the bound been too large, that earlier expression would have panicked first
            root = _slice_root(b, t["args"][0])
            tr = trace(b, t["args"][1])
            if root is not None and tr.origin and tr.origin[0] == "agg" and tr.origin[1]["rv"]["ops"] and is_place(tr.origin[1]["rv"]["ops"][0]) and not tr.origin[1]["rv"]["ops"][0]["p"]["pr"]:
                bound = _copy_root(b, tr.origin[1]["rv"]["ops"][0]["p"]["l"])
                for ob, ot in b.calls():
                    if ob == bi or kind_of_call(fn_of(ot) or {}) != k or not b.dominates(ob, bi) or _slice_root(b, ot["args"][0]) != root:
                        continue
                    otr = trace(b, ot["args"][1])
                    if not (otr.origin and otr.origin[0] == "agg" and otr.origin[1]["rv"]["ops"] and is_place(otr.origin[1]["rv"]["ops"][0]) and not otr.origin[1]["rv"]["ops"][0]["p"]["pr"]):
                        continue
                    if _copy_root(b, otr.origin[1]["rv"]["ops"][0]["p"]["l"]) != bound:
                        continue
                    between = b.reachable_from(b.succ(ob), removed_nodes=[bi])
                    stale = any(db != bi and db in between and bi in b.reachable_from(db) for r_ in (root, bound) for db, _, _, _ in b.whole_defs(r_))
                    if not stale:
                        return "the same slice was already cut at the same bound on every path here (the earlier expression would have panicked first)"
        if k in ("call:option.expect", "call:option.unwrap") and t["args"]:
            # the Option was just seen to be Some: `if o.is_none() { return/bail } .. o.take().expect(..)` (or the value
            # itself unwrapped) with nothing writing `o` in between
            why = _option_known_some(b, bi, t["args"][0])
            if why:
                return why
        if k.startswith("call:index:std::ops::RangeFull"):
            return "[..] cannot fail"
        if k in ("call:result.expect", "call:result.unwrap") and t["args"]:
            # `uN::try_from(x).expect(..)` where x always fits uN (interval analysis): the Err arm does not exist
            tr = trace(b, t["args"][0])
            if tr.origin and tr.origin[0] == "call" and all(s_[0] == "use" for s_ in tr.steps):
                cf = fn_of(tr.origin[2]) or {}
                m = re.match(r"^std::result::Result<(\w+), ", b.local_ty(tr.origin[2]["dest"]["l"])) if not tr.origin[2]["dest"]["pr"] else None
                if cf.get("trait") in ("std::convert::TryFrom", "std::convert::TryInto") and m and m.group(1) in ival.INT_RANGE and len(tr.origin[2]["args"]) == 1:
                    if b.id not in _IV:
                        _IV[b.id] = ival.for_body(b)
                    v = _IV[b.id].at_call(tr.origin[1], tr.origin[2]["args"][0]) if _IV[b.id] is not None else None
                    if v and ival.subset(v, [ival.INT_RANGE[m.group(1)]]):
                        return f"conversion of a value in {list(v)} to {m.group(1)} cannot fail on this target"
        if k.startswith("call:panic"):
            # an assertion whose failing branch the interval analysis proves infeasible (`debug_assert!` of a range
            # that the callers' checks already established)
            if b.id not in _IV:
                _IV[b.id] = ival.for_body(b)
            iv = _IV[b.id]
            if iv is not None and bi not in iv.entry and bi not in getattr(iv, "threaded", {}):
                return "the failing branch of this assertion is infeasible: the asserted range holds on every path (interval analysis, with the argument ranges of every call site)"
    return None


@rule("R04.1", 30, "panic-edge inventory: every panic-capable MIR edge (asserts, panicking library entry points) is within the reviewed multiset", ["C04"])
def r04_1(ctx):
    rv = _reviewed()
    total = 0
    proved_seen = {}
    _IV.clear()
    for crate in (ctx.lib, ctx.bin):
        want = rv.get(crate.kind, {})
        edges = panic_edges(crate)
        # multiset per source file and kind (moving code between functions of one module is not a new edge)
        per_file = {}
        for fn, ks in sorted(edges.items()):
            b = crate.by_id[fn]
            for k, locs in ks.items():
                per_file.setdefault(b.file, {}).setdefault(k, []).extend((b, bi, ln) for bi, ln in locs)
        # first pass: local proofs, open edges per (file, kind)
        opens = {}
        for f, ks in sorted(per_file.items()):
            for k, locs in sorted(ks.items()):
                total += len(locs)
                proofs = [(x, bi, ln, local_proof(x, bi)) for x, bi, ln in locs]
                for x, bi, ln, why_ in [p for p in proofs if p[3]]:
                    ctx.ob(f"{crate.kind}:{f}:{k}:proved:{x.name}:{_nth(proved_seen, (f, k, x.name))}", True, site(x, bi), "dead edge by a local argument: " + why_, trivial=True)
                open_ = [p for p in proofs if not p[3]]
                if open_:
                    opens[(f, k)] = open_
        # what each reviewed entry still has to give: code that moved to another file keeps its function name, so
        # an edge in excess in file B, function f, is covered by the entry of a file A that names `f` and now
        # has fewer edges of that kind than reviewed
        spare = {}
        for f, ks in want.items():
            for k, e in ks.items():
                left = e.get("count", 0) - len(opens.get((f, k), []))
                if left > 0:
                    spare[(f, k)] = [left, {seg.split(":")[0].strip() for seg in e.get("why", "").split(" | ")}]
        for (f, k), open_ in sorted(opens.items()):
            allowed = want.get(f, {}).get(k, {}).get("count", 0)
            excess = open_[allowed:] if len(open_) > allowed else []
            moved = []
            if excess:
                # prefer to explain the edges whose function is named by a donor entry
                pool = sorted(open_, key=lambda p_: 0 if any(p_[0].name in names for (g, k2), (left, names) in spare.items() if k2 == k and g != f) else 1)
                need = len(open_) - allowed
                for p_ in pool:
                    if need == 0:
                        break
                    for (g, k2), ent in spare.items():
                        if k2 == k and g != f and ent[0] > 0 and p_[0].name in ent[1]:
                            ent[0] -= 1
                            need -= 1
                            moved.append((p_[0].name, g))
                            break
                # the same bound argument under another spelling: `&x[..n]`, `&x[n..]`, `x.split_at(n)` all need
                # n <= len; an entry of this file for one of them that is now under-used covers another
                if need > 0 and k in SLICE_BOUND:
                    for (g, k2), ent in spare.items():
                        while need > 0 and g == f and k2 != k and k2 in SLICE_BOUND and ent[0] > 0:
                            ent[0] -= 1
                            need -= 1
                            moved.append((k2, g))
                excess = excess if need > 0 else []
            ok = not excess
            why = want.get(f, {}).get(k, {}).get("why", "NOT REVIEWED")
            b0, bi0, _, _ = open_[0]
            note = f" ({len(moved)} of them moved here with their function from {sorted({g for _, g in moved})})" if moved else ""
            ctx.ob(f"{crate.kind}:{f}:{k}", ok, site(b0, bi0),
                   f"{len(open_)} edge(s) without a local proof, reviewed {allowed}{note}: {why[:300]}" if ok else
                   f"unreviewed panic edge: {len(open_)} `{k}` edge(s) in {f} without a local proof at {sorted({(x.name, ln) for x, _, ln, _ in open_})}, {allowed} reviewed for this file")
    ctx.ob("edges-counted", total >= 30, "lib+bin", f"{total} panic-capable edge(s) in this configuration ({ctx.config})")
    # positive control: the same enumerator sees the control crate's panics
    ctl = ctx.facts.controls
    if ctl:
        e = panic_edges(ctl).get("panics", {})
        kinds = {k.split(":")[1] if k.startswith("call:") else k.split(":")[0] for k in e}
        for need in ("assert", "index", "option.unwrap", "result.expect", "split_at", "panic"):
            ctx.ob(f"control:{need}", any(need in k for k in e), "tables/controls/src/lib.rs", f"enumerator sees `{need}` in the positive control", trivial=True)


def _nth(d, k):
    d[k] = d.get(k, 0) + 1
    return d[k] - 1


def _find(lib, pred):
    r = [b for b in lib.bodies if pred(b)]
    return r


def _emptiness_tests(nv):
    """[(nonempty_edge, empty_edge)] for tests of the first parameter's emptiness."""
    out = []
    for bb, t in nv.calls():
        f = fn_of(t) or {}
        if not t["args"] or trace(nv, t["args"][0]).origin != ("arg", 1) or t["target"] is None:
            continue
        if f.get("name") == "is_empty":
            sw = nv.blocks[t["target"]]["term"]
            if sw["k"] != "switch":
                continue
            z = [x for v, x in sw["targets"] if v == 0]
            if z:
                out.append(((t["target"], 0, z[0]), (t["target"], "otherwise", sw["otherwise"])))
        elif f.get("name") == "first" and nv.local_ty(t["dest"]["l"]).startswith("std::option::Option<"):
            # `let Some(x) = input.first() else {..}` / `match input.first()`
            for sb in sorted(nv.reach()):
                sw = nv.blocks[sb]["term"]
                if sw["k"] != "switch":
                    continue
                hit = any(s["k"] == "assign" and s["rv"]["k"] == "discr" and not s["rv"]["p"]["pr"] and s["rv"]["p"]["l"] == t["dest"]["l"] for s in nv.blocks[sb]["stmts"])
                if not hit:
                    continue
                tg = dict((v, x) for v, x in sw["targets"])
                some = (sb, 1, tg[1]) if 1 in tg else (sb, "otherwise", sw["otherwise"])
                none = (sb, 0, tg[0]) if 0 in tg else (sb, "otherwise", sw["otherwise"])
                if nv.blocks[some[2]]["term"]["k"] == "unreachable" or some == none:
                    continue
                out.append((some, none))
    return out


def _array_buffers(lib):
    """[(buffer adt, cursor adt)]: xt structs holding a `[u8; N]` array and two usize cursors, the cursors either in the
    struct itself or in one nested xt struct of exactly two usize fields."""
    out = []
    for p_, a_ in lib.adts.items():
        if a_["crate"] != "xt" or a_["kind"] != "struct":
            continue
        fs_ = a_["variants"][0]["fields"]
        if not any(f_["ty"].startswith("[u8; ") for f_ in fs_):
            continue
        if sum(1 for f_ in fs_ if f_["ty"] == "usize") == 2:
            out.append((p_, p_))
            continue
        for f_ in fs_:
            c_ = lib.adts.get(f_["ty"].split("<")[0])
            if c_ and c_["crate"] == "xt" and c_["kind"] == "struct" and len(c_["variants"][0]["fields"]) == 2 and all(x_["ty"] == "usize" for x_ in c_["variants"][0]["fields"]):
                out.append((p_, f_["ty"].split("<")[0]))
    return out


def array_buffer_window(lib):
    """(buffer adt, pos field, len field, cursor adt) of xt's fixed array buffer (a struct with a [u8; N] field and two
    usize cursors whose unread window is `buf[pos..len]`), or (None, None, None, None)."""
    pairs = _array_buffers(lib)
    if len(pairs) != 1:
        return None, None, None, None
    adt, cadt = pairs[0]
    pos_f = len_f = None
    for b in lib.bodies:
        if b.raw.get("impl_self_adt") not in (adt, cadt):
            continue
        for bi, blk in enumerate(b.blocks):
            for s in blk["stmts"]:
                if s["k"] == "assign" and s["rv"]["k"] == "aggregate" and s["rv"].get("adt") == "std::ops::Range" and len(s["rv"]["ops"]) == 2:
                    fs = []
                    for o in s["rv"]["ops"]:
                        tr = trace(b, o)
                        fs.append(next((st_[1] for st_ in tr.steps if st_[0] == "field" and st_[2] == cadt), None))
                    if all(fs) and fs[0] != fs[1]:
                        pos_f, len_f = fs
    return adt, pos_f, len_f, cadt


@rule("R04.2", 8, "re-verified guards of the anchored panic sites (size calculator bounds, length reader, capture reader slicing, buffer encapsulation)", ["C04"])
def r04_2(ctx):
    import r_c18

    lib = ctx.lib
    sccs, _ = r_c18._sccs(lib)
    ctx.need(sccs, "size calculator (recursive component) not found")
    comp = sccs[0]
    bp = r_c18._budget_param(lib, comp)
    entry = [lib.by_id[f] for f in comp if lib.by_id[f].nargs == 2]
    ctx.need(len(entry) == 1, "size calculator entry (input, budget) not found")
    nv = entry[0]
    # G1: indexing of `input` is dominated by the non-empty edge of the emptiness test
    # (`input.is_empty()` or `input.first()` matched against Some/None)
    emp = _emptiness_tests(nv)
    ctx.ob("G1:is_empty-test", len(emp) == 1, site(nv), f"{len(emp)} emptiness test(s) of `input` (is_empty() / first())")
    if emp:
        nonempty_edge, empty_edge = emp[0]
        n = 0
        for bi in sorted(nv.reach()):
            t = nv.blocks[bi]["term"]
            is_idx = (t["k"] == "assert" and t["msg"] == "bounds") or (t["k"] == "call" and (kind_of_call(fn_of(t) or {"def": "", "name": ""}) or "").startswith("call:index"))
            if is_idx:
                n += 1
                ok = nv.edge_dominates(nonempty_edge[0], nonempty_edge[1], nonempty_edge[2], bi)
                ctx.ob(f"G1:index-under-nonempty:{n}", ok, site(nv, bi), "indexing happens only for non-empty input" if ok else "input is indexed without the emptiness test")
        # G2: every Ok(v) return is 0 under is_empty or lies on the true edge of total <= input.len()
        le_edges = []
        for bi in sorted(nv.reach()):
            sw2 = nv.blocks[bi]["term"]
            if sw2["k"] != "switch":
                continue
            for s in nv.blocks[bi]["stmts"]:
                if s["k"] == "assign" and s["rv"]["k"] == "binop" and s["rv"]["op"] in ("Le", "Lt", "Ge", "Gt"):
                    op_ = s["rv"]["op"]
                    la, lb = s["rv"]["a"], s["rv"]["b"]

                    def is_len(o):
                        return _len_of(nv, o) == 1 or (is_place(o) and any(
                            (kind == "assign" and payload["rv"]["k"] == "unop" and payload["rv"]["op"] == "PtrMetadata" and trace(nv, payload["rv"]["a"]).origin == ("arg", 1)) or
                            (kind == "call" and (fn_of(payload) or {}).get("name") == "len" and trace(nv, payload["args"][0]).origin == ("arg", 1))
                            for _, _, kind, payload in nv.whole_defs(o["p"]["l"])))

                    zero = [x for v_, x in sw2["targets"] if v_ == 0]
                    # the edge on which `size <= input.len()` holds, and which operand is the size
                    if op_ == "Le" and is_len(lb):
                        le_edges.append((bi, "otherwise", sw2["otherwise"], la))
                    elif op_ == "Ge" and is_len(la):
                        le_edges.append((bi, "otherwise", sw2["otherwise"], lb))
                    elif op_ == "Gt" and is_len(lb) and zero:
                        le_edges.append((bi, 0, zero[0], la))
                    elif op_ == "Lt" and is_len(la) and zero:
                        le_edges.append((bi, 0, zero[0], lb))
        n_ok = 0
        for bi in sorted(nv.reach()):
            for s in nv.blocks[bi]["stmts"]:
                if s["k"] == "assign" and s["p"]["l"] == 0 and not s["p"]["pr"] and s["rv"]["k"] == "aggregate" and s["rv"].get("variant") == "Ok":
                    n_ok += 1
                    v = s["rv"]["ops"][0]
                    if v.get("k") == "const" and v.get("v") == 0:
                        ok = nv.edge_dominates(empty_edge[0], empty_edge[1], empty_edge[2], bi)
                        ctx.ob(f"G2:ok-return:{n_ok}", ok, site(nv, bi), "Ok(0) only for empty input")
                    else:
                        ok = False
                        for a, lab, d, lhs in le_edges:
                            same = is_place(v) and is_place(lhs) and trace(nv, v).origin == trace(nv, lhs).origin
                            if nv.edge_dominates(a, lab, d, bi) and same:
                                ok = True
                        ctx.ob(f"G2:ok-return:{n_ok}", ok, site(nv, bi), "returned size lies on the true edge of size <= input.len()" if ok else "a size can be returned without being compared with input.len(): callers slice with it")
        ctx.ob("G2:ok-returns", n_ok >= 2, site(nv), f"{n_ok} Ok return(s)")
    # split_at in the MessagePack entry point uses the calculator's result on the same slice
    ep = common.input_entry_points(ctx.facts)["msgpack"]
    for bb, t in ep.calls():
        if (fn_of(t) or {}).get("name") == "split_at":
            tr = trace(ep, t["args"][1])
            # (the calculator may be reached through a thin wrapper that converts the budget and hands the slice on:
            # `fn next_value_size(input, limit) { value_size(input, Depth(limit)) }`)
            calc_ids = {nv.id}
            for wb in lib.bodies:
                if wb.raw["def_kind"] == "Fn" and wb.id != nv.id and len(list(wb.calls())) <= 6 and not any(wb.on_cycle(x_) for x_ in wb.reach()):
                    tails = [t_ for _, t_ in wb.calls() if ((fn_of(t_) or {}).get("resolved") or (fn_of(t_) or {}).get("def")) == nv.id and not t_["dest"]["pr"] and t_["dest"]["l"] == 0]
                    if len(tails) == 1 and tails[0]["args"]:
                        at_ = trace(wb, tails[0]["args"][0])
                        if at_.origin and at_.origin[0] == "arg" and at_.origin[1] == 1 and all(x_[0] in ("use", "ref", "deref") for x_ in at_.steps):
                            calc_ids.add(wb.id)
            ok = bool(tr.origin and tr.origin[0] == "call" and ((fn_of(tr.origin[2]) or {}).get("resolved") or (fn_of(tr.origin[2]) or {}).get("def")) in calc_ids and any(s[0] == "downcast" and s[1] in ("Continue", "Ok") for s in tr.steps))
            same = False
            if ok:
                a = trace(ep, t["args"][0])
                b_ = trace(ep, tr.origin[2]["args"][0])
                same = a.origin == b_.origin or (a.origin and b_.origin and a.origin[0] == "multi" and b_.origin[0] == "multi" and a.origin[1] == b_.origin[1])
            ctx.ob("G2:split_at-uses-calculator", ok and same, site(ep, bb), "split point = next_value_size(rest) of the same slice" if ok and same else "split_at index does not come from the size calculator applied to the same slice")
    # G3: length reader unwrap
    lr = [b for b in lib.bodies if any(kind_of_call(fn_of(t) or {"def": "", "name": ""}) == "call:result.unwrap" for _, t in b.calls()) and any((fn_of(t) or {}).get("name") == "get" for _, t in b.calls()) and b.file == nv.file]
    for b in lr:
        for bb, t in b.calls():
            if kind_of_call(fn_of(t) or {"def": "", "name": ""}) == "call:result.unwrap":
                tr = trace(b, t["args"][0], passthrough_extra=("std::convert::TryInto", "try_into", "std::option::Option::<T>::ok_or"))
                src = tr.origin[2] if tr.origin and tr.origin[0] == "call" else None
                ok = bool(src and (fn_of(src) or {}).get("name") == "get" and "Range<usize>" in " ".join((fn_of(src) or {}).get("args", [])))
                # the range is 1..1+N for the same const generic N as the target array
                ctx.ob(f"G3:unwrap-of-exact-length-slice:{b.name}", ok, site(b, bb), "try_into::<[u8; N]>() is applied to input.get(1..1+N)" if ok else "unwrap of a conversion whose source is not the exact-length get(..) slice")
    # G6: capture reader slicing bounded by min(buf.len(), ..)
    import r_c09

    cap, guard = r_c09._capture_adts(lib)
    rd = [b for b in lib.bodies if b.raw.get("impl_trait") == "std::io::Read" and b.raw.get("impl_self_adt") == cap and b.name == "read"]
    for b in rd:
        # `read` and the helpers of the same type it hands the caller's buffer to
        scope = [b]
        for _, t in b.calls():
            f = fn_of(t) or {}
            cb = lib.by_id.get(f.get("resolved") or f.get("def")) if f.get("local") else None
            if cb is not None and cb not in scope and cb.raw.get("impl_self_adt") == cap and any(is_place(a) and "[u8]" in b.local_ty(a["p"]["l"]) for a in t["args"]):
                scope.append(cb)
        n = 0
        by_min = 0
        n_ok = 0
        for sb in scope:
            for bb, t in sb.calls():
                k = kind_of_call(fn_of(t) or {"def": "", "name": ""}) or ""
                if not (k in ("call:split_at", "call:split_at_mut") or k.startswith("call:index:std::ops::Range")) or len(t["args"]) < 2:
                    continue
                if k.startswith("call:index:std::ops::RangeFull"):
                    continue
                root = _slice_root(sb, t["args"][0])
                if root is None or not any("[u8]" in sb.local_ty(p_) and _subslice_of(sb, root, p_) for p_ in range(1, sb.nargs + 1)):
                    continue  # not (a part of) the caller's buffer
                n += 1
                why = local_proof(sb, bb)
                from_read = False
                if not why and k.startswith("call:index"):
                    tr = trace(sb, t["args"][1])
                    if tr.origin and tr.origin[0] == "agg":
                        from_read = any(is_place(o) and trace(sb, o).origin and trace(sb, o).origin[0] == "call" and (fn_of(trace(sb, o).origin[2]) or {}).get("trait") == "std::io::Read" and (fn_of(trace(sb, o).origin[2]) or {}).get("name") == "read" and _slice_root(sb, trace(sb, o).origin[2]["args"][1]) == root for o in tr.origin[1]["rv"]["ops"])
                        if not from_read:
                            # or of a helper that hands back `reader.read(buf)`'s own result for this very slice
                            for o in tr.origin[1]["rv"]["ops"]:
                                ot = trace(sb, o) if is_place(o) else None
                                if ot and ot.origin and ot.origin[0] == "call" and (fn_of(ot.origin[2]) or {}).get("local"):
                                    hc = lib.by_id.get((fn_of(ot.origin[2]) or {}).get("resolved") or (fn_of(ot.origin[2]) or {}).get("def"))
                                    pt = r_c09._read_passthrough_helper(lib, hc) if hc is not None else None
                                    if pt is not None and len(ot.origin[2]["args"]) >= pt[1] and _slice_root(sb, ot.origin[2]["args"][pt[1] - 1]) == root:
                                        from_read = True
                if why and "min(len" in why:
                    by_min += 1
                if why or from_read:
                    n_ok += 1
                ctx.ob(f"G6:slice-bound:{n}", bool(why) or from_read, site(sb, bb), (why or "bound is the length the source reported for a read into this very slice") if (why or from_read) else "slice bound of unknown provenance: neither min(buf.len(), ..) of the sliced buffer nor the source's reported read length")
        ctx.ob("G6:prefix_size-is-min-with-buf.len", n >= 1 and n_ok == n, site(b), f"{n} slicing(s) of the caller's buffer, each bounded ({by_min} by min(buf.len(), ..))" if n >= 1 and n_ok == n else f"{n} slicing(s) of the caller's buffer, {n_ok} with a bound: the copy of the captured prefix is no longer limited to the caller's buffer")
    # G7: ArrayBuffer fields are written only by its own methods. The two cursors live in the buffer struct itself, or
    # in a small struct of their own that the buffer holds (`bounds: Unread { pos, len }`)
    ab_pairs = _array_buffers(lib)
    ab = [x[0] for x in ab_pairs]
    ctx.ob("G7:array-buffer-found", len(ab) == 1, "lib", f"fixed buffer type(s): {ab}")
    for adt, cadt in ab_pairs:
        owners = {adt, cadt}
        bad = []
        nw = 0
        for b in lib.bodies:
            for bi, blk in enumerate(b.blocks):
                for s in blk["stmts"]:
                    if s["k"] == "assign" and s["p"]["pr"] and s["p"]["pr"][-1]["k"] == "field" and s["p"]["pr"][-1].get("adt") == cadt and s["p"]["pr"][-1]["ty"] == "usize":
                        nw += 1
                        if b.raw.get("impl_self_adt") not in owners:
                            bad.append(b.id)
                    elif s["k"] == "assign" and s["rv"]["k"] == "aggregate" and s["rv"].get("adt") == cadt and cadt != adt:
                        # the cursor pair built as a whole (`Unread { pos: 0, len }`): a write of both
                        nw += 2
                        if b.raw.get("impl_self_adt") not in owners:
                            bad.append(b.id)
                        pidx = [i for i, f_ in enumerate(s["rv"].get("fields", [])) if lib.adts[cadt]["variants"][0]["fields"][i]["ty"] == "usize"] if False else None
        ctx.ob("G7:cursor-fields-encapsulated", not bad and nw >= 3, adt, f"{nw} write(s) to the pos/len fields, all inside the type's own methods" if not bad else f"pos/len written from outside: {bad}")
        # representation invariant pos <= len behind `&buf[pos..len]`: which field is which is read off
        # the Range that slices the array; `len` may grow additively, any other store into `len` (a reset)
        # must come with `pos = 0` on the same path
        pos_f = len_f = None
        for b in lib.bodies:
            if b.raw.get("impl_self_adt") not in owners:
                continue
            for bi, blk in enumerate(b.blocks):
                for s in blk["stmts"]:
                    if s["k"] == "assign" and s["rv"]["k"] == "aggregate" and s["rv"].get("adt") == "std::ops::Range" and len(s["rv"]["ops"]) == 2:
                        fs = []
                        for o in s["rv"]["ops"]:
                            tr = trace(b, o)
                            fs.append(next((st_[1] for st_ in tr.steps if st_[0] == "field" and st_[2] == cadt), None))
                        if all(fs) and fs[0] != fs[1]:
                            pos_f, len_f = fs
        ctx.ob("G7:pos-len-identified", pos_f is not None, adt, f"unread window is buf[{pos_f}..{len_f}]")
        if pos_f is not None and cadt != adt:
            # a cursor pair built as a whole starts at pos = 0 (so pos <= len whatever len is)
            for b in lib.bodies:
                for bi, blk in enumerate(b.blocks):
                    for s in blk["stmts"]:
                        if s["k"] == "assign" and s["rv"]["k"] == "aggregate" and s["rv"].get("adt") == cadt and pos_f in s["rv"].get("fields", []):
                            po = s["rv"]["ops"][s["rv"]["fields"].index(pos_f)]
                            okp = const_value(po) == 0 or (is_place(po) and (lambda t_: bool(t_.origin and t_.origin[0] == "const" and t_.origin[1].get("v") == 0))(trace(b, po)))
                            ctx.ob(f"G7:reset-keeps-pos-le-len:{b.name}", okp, site(b, bi), f"the cursor pair is built with `{pos_f}` = 0" if okp else f"the cursor pair is built with a `{pos_f}` that is not 0: buf[{pos_f}..{len_f}] can panic with start > end")
        if pos_f is not None:
            def _pos_writes(b_):
                out = []
                for bi_, blk_ in enumerate(b_.blocks):
                    for s_ in blk_["stmts"]:
                        if s_["k"] == "assign" and s_["p"]["pr"] and s_["p"]["pr"][-1]["k"] == "field" and s_["p"]["pr"][-1].get("adt") == cadt and s_["p"]["pr"][-1]["name"] == pos_f:
                            out.append((bi_, s_["rv"]["k"] == "use" and const_value(s_["rv"]["op"]) == 0))
                return out
            # own methods that leave `pos` at 0 on every path (`clear`): calling one counts as `pos = 0`
            zeroing = set()
            for b in lib.bodies:
                if b.raw.get("impl_self_adt") not in owners or b.nargs < 1 or not b.local_ty(1).startswith("&mut "):
                    continue
                pw = _pos_writes(b)
                if pw and all(z for _, z in pw) and b.must_pass(0, b.return_blocks(), [bi_ for bi_, _ in pw]):
                    zeroing.add(b.id)
            for b in lib.bodies:
                if b.raw.get("impl_self_adt") not in owners:
                    continue
                pos_zero = []
                for bi, t_ in b.calls():
                    f_ = fn_of(t_) or {}
                    if (f_.get("resolved") or f_.get("def")) in zeroing and t_["args"] and is_place(t_["args"][0]) and b.local_ty(t_["args"][0]["p"]["l"]).startswith("&mut ") and any(o_.rsplit("::", 1)[-1] in b.local_ty(t_["args"][0]["p"]["l"]) for o_ in owners):
                        pos_zero.append(t_.get("target"))
                pos_zero = [z for z in pos_zero if z is not None]
                for bi, blk in enumerate(b.blocks):
                    for s in blk["stmts"]:
                        if s["k"] == "assign" and s["p"]["pr"] and s["p"]["pr"][-1]["k"] == "field" and s["p"]["pr"][-1].get("adt") == cadt and s["p"]["pr"][-1]["name"] == pos_f and s["rv"]["k"] == "use" and const_value(s["rv"]["op"]) == 0:
                            pos_zero.append(bi)
                for bi, blk in enumerate(b.blocks):
                    for s in blk["stmts"]:
                        if not (s["k"] == "assign" and s["p"]["pr"] and s["p"]["pr"][-1]["k"] == "field" and s["p"]["pr"][-1].get("adt") == cadt and s["p"]["pr"][-1]["name"] == len_f):
                            continue
                        rv = s["rv"]
                        additive = False
                        if rv["k"] == "use" and is_place(rv["op"]):
                            tr = trace(b, rv["op"])
                            if tr.origin and tr.origin[0] == "rvalue" and tr.origin[1]["rv"]["k"] == "binop" and tr.origin[1]["rv"]["op"].startswith("Add"):
                                a_ = trace(b, tr.origin[1]["rv"]["a"])
                                additive = any(st_[0] == "field" and st_[1] == len_f for st_ in a_.steps)
                        if rv["k"] == "binop" and rv["op"].startswith("Add"):
                            # without overflow checks `len += n` is a plain `len = Add(len, n)`
                            a_ = trace(b, rv["a"])
                            additive = any(st_[0] == "field" and st_[1] == len_f for st_ in a_.steps)
                        if additive:
                            continue
                        ok_r = any(b.dominates(z, bi) for z in pos_zero) or (bool(pos_zero) and b.must_pass(bi, b.return_blocks(), pos_zero)) or bi in pos_zero
                        ctx.ob(f"G7:reset-keeps-pos-le-len:{b.name}", ok_r, site(b, bi), f"`{len_f}` is re-initialised together with `{pos_f} = 0`" if ok_r else f"`{len_f}` is reset while `{pos_f}` keeps its old value: buf[{pos_f}..{len_f}] can panic with start > end")
    # G8: `char::encode_utf8(dst)` panics inside std when dst is shorter than the character's encoding (up to 4 bytes):
    # the destination is a [u8; N >= 4] array, or the call is reached only over an edge on which len(dst) >= 4 is
    # known, taken since dst was last re-sliced
    import r_c07

    n8 = 0
    for b in lib.bodies:
        e4 = None
        for bb, t in b.calls():
            f = fn_of(t) or {}
            if f.get("name") != "encode_utf8" or "char" not in f.get("def", "") or len(t["args"]) < 2:
                continue
            n8 += 1
            alen = r_c07._array_len_behind(b, t["args"][1])
            if alen is not None:
                ctx.ob(f"G8:encode_utf8-destination:{b.name}:{_nth(_g8_seen, (ctx.config, b.id))}", alen >= 4, site(b, bb), f"destination is a [u8; {alen}] array" + ("" if alen >= 4 else ": shorter than a 4-byte character"))
                continue
            root = _slice_root(b, t["args"][1])
            if e4 is None:
                e4 = _nonempty_edges(b, atleast=4)
            ok = False
            for r, (src, dst) in e4:
                if r != root:
                    continue
                starts = [0] + [db for db, _, _, _ in b.whole_defs(root)]
                if bb not in b.reachable_from(starts, removed_edges=[(src, dst)]):
                    ok = True
                    break
            ctx.ob(f"G8:encode_utf8-destination:{b.name}:{_nth(_g8_seen, (ctx.config, b.id))}", ok, site(b, bb),
                   "the destination slice was tested to hold at least 4 bytes since it was last re-sliced" if ok else
                   "the destination slice is not known to hold 4 bytes here: a supplementary-plane character (4 bytes in UTF-8) makes encode_utf8 panic, and the binary aborts")
    _g8_seen.clear()
    ctx.ob("G8:encode_utf8-sites", n8 >= 2, "lib", f"{n8} encode_utf8 call(s)")


@rule("R04.3", 6, "use-once typestate behind take_parent().expect(): each State-bearing object is handed to exactly one driver call per construction; take_parent is reached at most once per body", ["C04"])
def r04_3(ctx):
    import r_c11

    lib = ctx.lib
    st, srcf, src_enum, others = r_c11._state(lib)
    # take_parent = method of State whose body contains Option::expect / unwrap on a Cell::replace/take result
    takers = [b for b in lib.bodies if b.raw.get("impl_self_adt") == st and any(kind_of_call(fn_of(t) or {"def": "", "name": ""}) in ("call:option.expect", "call:option.unwrap") for _, t in b.calls())]
    ctx.need(len(takers) == 1, f"parent-taking accessor (State method with expect/unwrap) not found ({len(takers)})")
    taker = takers[0]
    wrappers = {p for p, a in lib.adts.items() if a["crate"] == "xt" and a["kind"] == "struct" and any(f["ty"].startswith(st + "<") for f in a["variants"][0]["fields"])}
    n_take = 0
    for b in lib.bodies:
        tk = [(bb, t) for bb, t in b.calls() if ((fn_of(t) or {}).get("resolved") or (fn_of(t) or {}).get("def")) == taker.id]
        for bb, t in tk:
            n_take += 1
            ctx.ob(f"take_parent:{b.name}:not-in-loop", not b.on_cycle(bb), site(b, bb), "parent is taken outside any loop of this body" if not b.on_cycle(bb) else "take_parent can execute twice for the same state (second call panics)")
        # two takes on the same receiver in one body must be mutually exclusive
        for i in range(len(tk)):
            for j in range(len(tk)):
                if i != j:
                    a, bnode = tk[i][0], tk[j][0]
                    ra = trace(b, tk[i][1]["args"][0])
                    rb = trace(b, tk[j][1]["args"][0])
                    if ra.origin == rb.origin and [s for s in ra.steps if s[0] == "field"] == [s for s in rb.steps if s[0] == "field"]:
                        excl = bnode not in b.reachable_from(tk[i][1]["target"])
                        ctx.ob(f"take_parent:{b.name}:exclusive:{i}-{j}", excl, site(b, bnode), "the two takes are on exclusive paths" if excl else "parent taken twice on one path")
    ctx.ob("take_parent-sites", n_take >= 1, st, f"{n_take} take_parent call site(s)")
    # the same across helpers and closures: in the supergraph of every trait method of the transcoder's module, no
    # path runs the taking accessor twice on the state reached from the method's own receiver (a helper that takes
    # the parent, called a second time from an error-handling closure, would panic there)
    module_file = taker.file
    n_m = 0
    for b in lib.bodies:
        if b.file != module_file or not b.raw.get("impl_trait") or b.raw["def_kind"] != "AssocFn":
            continue
        sup = Super(lib, b, depth=3)
        takes = []
        for nn, nb, t in sup.calls():
            if ((fn_of(t) or {}).get("resolved") or (fn_of(t) or {}).get("def")) != taker.id or not t["args"]:
                continue
            tr = strace(sup, nn, t["args"][0])
            if tr.origin and tr.origin[0] == "arg" and not tr.origin_node[0]:
                takes.append((nn, (tr.origin[1], tuple(st_[1] for st_ in tr.steps if st_[0] == "field"))))
        if not takes:
            continue
        n_m += 1
        bad = None
        for n1, k1 in takes:
            after = sup.reachable_from([m for lab, m in sup.edges(n1)])
            for n2, k2 in takes:
                if k1 == k2 and n2 in after:
                    bad = (n1, n2)
        ctx.ob(f"take-once-per-call:{b.raw.get('impl_self_ty', '')[:40]}::{b.name}", bad is None, sup.site(bad[1]) if bad else site(b),
               "no path takes the parent of the method's own state twice" if bad is None else f"the parent serializer can be taken a second time (first at {sup.site(bad[0])}): the second take panics")
    ctx.ob("taking-trait-methods", n_m >= 3, module_file, f"{n_m} trait method(s) that take a parent serializer examined")
    # constructions of wrapper objects and their single driver use
    n_c = 0
    for b in lib.bodies:
        for cb, ct in b.calls():
            f = fn_of(ct) or {}
            callee = lib.by_id.get(f.get("resolved") or f.get("def"))
            if not (callee and callee.raw.get("impl_self_adt") in wrappers and callee.local_ty(0).split("<")[0] in wrappers and callee.name == "new"):
                continue
            if b.raw.get("impl_self_adt") in wrappers and b.name == "new":
                continue
            n_c += 1
            X = ct["dest"]["l"]
            refs = {X}
            for _ in range(3):
                for bi, blk in enumerate(b.blocks):
                    for s in blk["stmts"]:
                        if s["k"] == "assign" and not s["p"]["pr"] and s["rv"]["k"] in ("ref",) and s["rv"]["p"]["l"] in refs and not s["rv"]["p"]["pr"]:
                            refs.add(s["p"]["l"])
                        if s["k"] == "assign" and not s["p"]["pr"] and s["rv"]["k"] == "ref" and s["rv"]["p"]["l"] in refs and all(e["k"] == "deref" for e in s["rv"]["p"]["pr"]):
                            refs.add(s["p"]["l"])
            drivers = []
            for ub, ut in b.calls():
                if ub == cb:
                    continue
                uf = fn_of(ut) or {}
                if any(is_place(a) and a["p"]["l"] in refs and not a["p"]["pr"] for a in ut["args"]):
                    ucallee = lib.by_id.get(uf.get("resolved") or uf.get("def"))
                    if ucallee and ucallee.raw.get("impl_self_adt") in wrappers | {st}:
                        # the wrapper's own helper (e.g. serialize_with_seed(self, ..)) consumes it: counts as the driver
                        if ucallee.local_ty(1).split("<")[0] in wrappers and not ucallee.local_ty(1).startswith("&"):
                            drivers.append((ub, uf.get("name")))
                        continue
                    drivers.append((ub, uf.get("name")))
            key = f"construct:{b.raw.get('impl_self_adt', '').rsplit('::', 1)[-1]}::{b.name}:{callee.raw.get('impl_self_adt').rsplit('::', 1)[-1]}"
            ok = len(drivers) >= 1
            once = True
            for ub, _ in drivers:
                tgt = b.blocks[ub]["term"]["target"]
                if tgt is None:
                    continue
                r = b.reachable_from(tgt, removed_nodes=[cb])
                if any(vb in r for vb, _ in drivers):
                    once = False
            ctx.ob(key, ok and once, site(b, cb), f"handed to exactly one driver call per construction ({[n for _, n in drivers]})" if ok and once else f"object can be driven twice without being re-created ({[n for _, n in drivers]}): the second take_parent panics")
    ctx.ob("constructions", n_c >= 3, "lib", f"{n_c} construction(s) of State-bearing objects")


_ALLOC_SIZE_ARG = {"with_capacity": 0, "with_capacity_in": 0, "with_capacity_and_hasher": 0, "reserve": 1, "reserve_exact": 1, "try_reserve": 1, "resize": 1, "from_elem": 1}
_HINT_PASS = ("::unwrap_or", "::unwrap_or_default", "::unwrap_or_else", "::unwrap", "::expect", "::map_or", "std::cmp::max", "std::cmp::Ord::max", "saturating_add", "saturating_mul", "wrapping_add", "checked_add", "next_power_of_two")


@rule("R04.5", 2, "no allocation is sized by an input-declared length: capacities derived from a size_hint are capped by a constant, or listed as reviewed", ["C04"])
def r04_5(ctx):
    rv = json.load(open(os.path.join(VERIF, "tables", "hint_allocs.json")))["reviewed"]
    n_alloc = 0
    for crate in (ctx.lib, ctx.bin):
        per_file = {}
        for b in crate.bodies:
            for bb, t in b.calls():
                f = fn_of(t) or {}
                idx = _ALLOC_SIZE_ARG.get(f.get("name"))
                if idx is None or f.get("crate") == "xt" or len(t["args"]) <= idx:
                    continue
                n_alloc += 1
                tr = trace(b, t["args"][idx], passthrough_extra=_HINT_PASS)
                srcs = []
                if tr.origin and tr.origin[0] == "call":
                    srcs = [tr.origin[2]]
                elif tr.origin and tr.origin[0] == "multi":
                    for _, _, k, p_ in tr.origin[2]:
                        if k == "call":
                            srcs.append(p_)
                hinted = any((fn_of(c) or {}).get("name") in ("size_hint", "len_hint") for c in srcs)
                # a binary `+`/`*` of a hint is as unbounded as the hint
                if not hinted and tr.origin and tr.origin[0] == "rvalue" and tr.origin[1]["rv"]["k"] == "binop":
                    for side in ("a", "b"):
                        t2 = trace(b, tr.origin[1]["rv"][side], passthrough_extra=_HINT_PASS)
                        if t2.origin and t2.origin[0] == "call" and (fn_of(t2.origin[2]) or {}).get("name") in ("size_hint", "len_hint"):
                            hinted = True
                if hinted:
                    per_file.setdefault(b.file, []).append((b, bb, f.get("name")))
        want = rv.get(crate.kind, {})
        spare = {g: [e.get("count", 0) - len(per_file.get(g, [])), {seg.split(":")[0].strip() for seg in e.get("why", "").split(" | ")}] for g, e in want.items()}
        for fl, sites_ in sorted(per_file.items()):
            allowed = want.get(fl, {}).get("count", 0)
            need = max(0, len(sites_) - allowed)
            for x, _, _ in sites_:
                # a site that moved to another file with its function
                for g, ent in spare.items():
                    if need and g != fl and ent[0] > 0 and x.name in ent[1]:
                        ent[0] -= 1
                        need -= 1
                        break
            ok = need == 0
            b0, bb0, nm = sites_[0]
            ctx.ob(f"{crate.kind}:{fl}:hint-sized-allocation", ok, site(b0, bb0),
                   f"{len(sites_)} site(s) sized by a size_hint, reviewed {allowed}: {want.get(fl, {}).get('why', '')[:240]}" if ok else
                   f"unreviewed allocation sized by an input-declared length: {len(sites_)} `{nm}`(size_hint ..) site(s) in {fl} at {sorted({(x.name, x.blocks[y]['term'].get('line')) for x, y, _ in sites_})}, {allowed} reviewed: a five-byte header can request gigabytes and abort the process")
        for fl, e in sorted(want.items()):
            if fl not in per_file:
                ctx.ob(f"{crate.kind}:{fl}:hint-sized-allocation", True, fl, "reviewed site(s) no longer present", trivial=True)
    ctx.ob("allocation-sites-seen", n_alloc >= 2, "lib+bin", f"{n_alloc} sized-allocation call(s) examined")
    # positive control: the enumerator sees a hint-sized allocation in the control crate
    ctl = ctx.facts.controls
    if ctl:
        seen = False
        for b in ctl.bodies:
            for bb, t in b.calls():
                f = fn_of(t) or {}
                idx = _ALLOC_SIZE_ARG.get(f.get("name"))
                if idx is not None and len(t["args"]) > idx:
                    tr = trace(b, t["args"][idx], passthrough_extra=_HINT_PASS)
                    if tr.origin and tr.origin[0] == "call" and (fn_of(tr.origin[2]) or {}).get("name") == "size_hint":
                        seen = True
        ctx.ob("control:hint-sized-allocation", seen, "tables/controls/src/lib.rs", "enumerator sees `with_capacity(iter.size_hint().0)` in the positive control", trivial=True)


@rule("R04.6", 1, "the MessagePack size calculator adds sizes in usize only: no sum of a header size and a declared length is formed in a narrower integer type (it would wrap in release builds and panic in debug builds for lengths near the type's maximum)", ["C04", "C06", "C02", "C03"])
def r04_6(ctx):
    import r_c18
    import ival

    lib = ctx.lib
    sccs, _ = r_c18._sccs(lib)
    ctx.need(sccs, "size calculator (recursive component) not found")
    scope = []
    for fid in sccs[0]:
        for b in lib.bodies:
            if r_c18._root_of(lib, b).id == fid and b not in scope:
                scope.append(b)
    # same-file helpers the calculator calls for lengths
    for b in list(scope):
        for _, t in b.calls():
            f = fn_of(t) or {}
            cb = lib.by_id.get(f.get("resolved") or f.get("def")) if f.get("local") else None
            if cb is not None and cb.file == scope[0].file and cb not in scope:
                scope.append(cb)
    n = 0
    usize_r = ival.INT_RANGE["usize"]
    for b in scope:
        iv = ival.for_body(b)
        for bi in sorted(b.reach()):
            for si, s in enumerate(b.blocks[bi]["stmts"]):
                if s["k"] != "assign" or s["rv"]["k"] != "binop" or s["rv"]["op"].replace("WithOverflow", "").replace("Unchecked", "") not in ("Add", "Mul", "Shl"):
                    continue
                ty = b.local_ty(s["p"]["l"])
                m = re.match(r"^\((\w+), bool\)$", ty)
                ty = m.group(1) if m else ty
                r = ival.INT_RANGE.get(ty)
                if r is None:
                    continue
                n += 1
                if r == usize_r or (r[1] > usize_r[1]):
                    continue
                # narrower than usize: only acceptable when the operands provably fit
                st = iv.state_after(bi, si - 1) if si > 0 else dict(iv.entry.get(bi, {}))
                A = iv.val(st, s["rv"]["a"]) if st is not None else None
                C = iv.val(st, s["rv"]["b"]) if st is not None else None
                fits = False
                if A and C:
                    (alo, ahi), (clo, chi) = ival.bounds(A), ival.bounds(C)
                    opn = s["rv"]["op"].replace("WithOverflow", "").replace("Unchecked", "")
                    top = ahi + chi if opn == "Add" else ahi * chi if opn == "Mul" else (ahi << chi if chi < 128 else r[1] + 1)
                    fits = top <= r[1]
                ctx.ob(f"narrow-arithmetic:{b.name}:{_nth(_r046_seen, (ctx.config, b.id))}", fits, site(b, line=s["line"]),
                       f"{ty} arithmetic whose operands provably fit" if fits else f"size arithmetic in {ty}: a declared length near {ty}::MAX makes the sum wrap (release) or panic (debug); the value is split at the wrong byte")
    _r046_seen.clear()
    ctx.ob("calculator-arithmetic-in-usize", n >= 3, site(scope[0]), f"{n} addition(s)/multiplication(s) in the size calculator ({len(scope)} bodies), all in usize or provably fitting")


_r046_seen = {}


@rule("R04.4", 2, "precondition of the chunker's reviewed slicing/unwrap sites: libyaml is pinned to UTF-8 (byte-accurate marks) before it is given input", ["C04", "C03", "C02"])
def r04_4(ctx):
    lib = ctx.lib
    ctors = [b for b in lib.bodies if any((fn_of(t) or {}).get("name") == "yaml_parser_set_input" for _, t in b.calls())]
    ctx.need(len(ctors) == 1, "libyaml parser constructor (calls yaml_parser_set_input) not found")
    c = ctors[0]
    enc = []
    for bb, t in c.calls():
        f = fn_of(t) or {}
        if f.get("name") == "yaml_parser_set_encoding":
            tr = trace(c, t["args"][1])
            v = None
            if tr.origin and tr.origin[0] == "agg":
                v = tr.origin[1]["rv"].get("variant")
            elif tr.origin and tr.origin[0] == "const":
                v = tr.origin[1].get("variant")
            enc.append((bb, v))
    si = [bb for bb, t in c.calls() if (fn_of(t) or {}).get("name") == "yaml_parser_set_input"][0]
    ok = any(v == "YAML_UTF8_ENCODING" and all(c.dominates(bb, r) for r in c.return_blocks()) for bb, v in enc)
    ctx.ob("encoding-pinned-to-utf8", ok, site(c, si), "yaml_parser_set_encoding(YAML_UTF8_ENCODING) on every path of the constructor" if ok else
           "libyaml is left to sniff the encoding: on a UTF-8 BOM its marks stop counting the bytes xt feeds it, so the chunker cuts documents at wrong offsets (String::from_utf8(..).unwrap() can panic, documents are mis-split)")
    # xt's own re-encoder strips UTF-16/32 BOMs before libyaml sees the stream (R07.4); the parser never re-reads
    pe = [b for b in lib.bodies if any((fn_of(t) or {}).get("name") == "yaml_parser_parse" for _, t in b.calls())]
    ctx.ob("single-parse-site", len(pe) == 1, "lib", f"{len(pe)} function(s) drive yaml_parser_parse")


# --------------------------------------------------------------------------- raw marker bytes


def _marker_size_table():
    t = json.load(open(os.path.join(VERIF, "tables", "msgpack_marker_sizes.json")))
    out = {}
    for r in t["rows"]:
        for v in range(r["from"], r["to"] + 1):
            out[v] = (1 + (v & 0x1F)) if r["size"] == "1+low5" else r["size"]
    return out


def _first_byte_groups(b):
    """{call terminator id: (call block, slice root, [u8 locals])}: the u8 locals of body b that are loaded from the
    first byte of a slice (`*s.first()?`, `s[0]`), grouped by where the byte was obtained."""
    groups = {}
    for l in range(b.nargs + 1, len(b.raw["locals"])):
        if b.local_ty(l) != "u8":
            continue
        ds = b.whole_defs(l)
        if len(ds) != 1 or ds[0][2] != "assign" or ds[0][3]["rv"]["k"] != "use" or not is_place(ds[0][3]["rv"]["op"]):
            continue
        tr = trace(b, ds[0][3]["rv"]["op"])
        if tr.origin and tr.origin[0] == "call" and (fn_of(tr.origin[2]) or {}).get("name") == "first" and (fn_of(tr.origin[2]) or {}).get("def", "").startswith("core::slice") and any(s_[0] == "downcast" and s_[1] == "Some" for s_ in tr.steps):
            ct = tr.origin[2]
            g = groups.setdefault(id(ct), (tr.origin[1], _slice_root(b, ct["args"][0]), []))
            g[2].append(l)
    return groups


def _raw_use(b, l):
    """Local l (a byte) is looked at directly (masked, compared, switched on), not only decoded by a marker table."""
    for bi, idx, how in uses_of_local_(b, l):
        if how == "stmt":
            s_ = b.blocks[bi]["stmts"][idx]
            if s_["k"] == "assign" and s_["rv"]["k"] == "binop":
                return True
            if s_["k"] == "assign" and s_["rv"]["k"] == "use" and not s_["p"]["pr"] and b.local_ty(s_["p"]["l"]) == "u8" and s_["p"]["l"] != l and _raw_use(b, s_["p"]["l"]):
                return True
        elif how == "switch":
            return True
    return False


def uses_of_local_(b, l):
    from model import uses_of_local

    return uses_of_local(b, l)


def raw_marker_findings(b, table):
    """For every group of first-byte locals of b that is used raw: run the interval analysis once per byte value
    0..=255 with the byte pinned, and look at every `&s[X..]` advance of the slice the byte came from: where X is a
    single known number although no sizing call on that slice is reachable for this byte, it must be the size the
    marker table gives for the byte. Returns (n_groups, n_values_on_raw_paths, [(line, byte, got, want)])."""
    import ival

    bad = []
    n_groups = 0
    n_vals = 0
    for gid, (cbb, sroot, locals_) in _first_byte_groups(b).items():
        if sroot is None or not any(_raw_use(b, l) for l in locals_):
            continue
        n_groups += 1
        adv = []
        delegates = []
        for bb, t in b.calls():
            f = fn_of(t) or {}
            if f.get("trait") in ("std::ops::Index", "std::ops::IndexMut") and len(t["args"]) == 2 and _slice_root(b, t["args"][0]) == sroot:
                rt = trace(b, t["args"][1])
                if rt.origin and rt.origin[0] == "agg" and rt.origin[1]["rv"].get("adt", "").endswith("RangeFrom") and rt.origin[1]["rv"]["ops"]:
                    adv.append((bb, rt.origin[1]["rv"]["ops"][0], t.get("line")))
            if f.get("local") and any(is_place(a) and _slice_root(b, a) == sroot for a in t["args"]):
                delegates.append(bb)
        adv_blocks = [a[0] for a in adv]
        # the sizing calls that feed each advance: those that reach it without passing another advance
        feeds = {}
        for bb, _, _ in adv:
            others = [x for x in adv_blocks if x != bb]
            feeds[bb] = [d for d in delegates if bb in b.reachable_from(d, removed_nodes=others)]
        for v in range(256):
            iv = ival.Interval(b, assume={l: ((v, v),) for l in locals_})
            for bb, xop, line in adv:
                # the size may be chosen on several arms (`let size = match .. { fast => 1 + (b & 31), _ => call(..)? }`):
                # each arm's value is judged where it is assigned
                cands = []
                xt = trace(b, xop)
                if xt.origin and xt.origin[0] == "multi" and all(s_[0] == "use" for s_ in xt.steps):
                    m_ = xt.origin[1]
                    for db, idx, kind, payload in b.whole_defs(m_):
                        if kind != "assign":
                            continue
                        st_ = iv.state_after(db, idx)
                        if st_ is None:
                            continue
                        cands.append((st_.get(m_), payload.get("line", line)))
                else:
                    if any(d in iv.entry or d in iv.threaded for d in feeds[bb]):
                        continue  # for this byte the advance is (also) sized by a call on the slice
                    x0 = iv.at_call(bb, xop)
                    if x0 != ():
                        cands.append((x0, line))
                for x, ln in cands:
                    if x and len(x) == 1 and x[0][0] == x[0][1]:
                        n_vals += 1
                        want = table.get(v)
                        if want != x[0][0]:
                            bad.append((ln, v, x[0][0], want))
    return n_groups, n_vals, bad


@rule("R04.7", 1, "a MessagePack value that the slice-mode size calculator sizes from its raw first byte (a fast path that does not decode the marker) gets exactly the size the format defines for that byte, for every one of the 256 byte values that can reach the fast path", ["C04", "C06", "C02", "C03"])
def r04_7(ctx):
    import r_c18

    lib = ctx.lib
    sccs, _ = r_c18._sccs(lib)
    ctx.need(sccs, "size calculator (recursive component) not found")
    table = _marker_size_table()
    scope = []
    for fid in sccs[0]:
        for b in lib.bodies:
            if r_c18._root_of(lib, b).id == fid and b not in scope:
                scope.append(b)
    total_groups = 0
    for b in scope:
        ng, nv, bad = raw_marker_findings(b, table)
        total_groups += ng
        if ng:
            first = bad[0] if bad else None
            ctx.ob(f"raw-marker-sizes:{b.name}", not bad, site(b, line=first[0] if first else None),
                   f"{ng} raw first-byte fast path(s): the size computed for each of the {nv} (byte, path) cases equals the marker table's" if not bad else
                   f"marker byte {first[1]:#04x} is sized {first[2]} on a raw-byte fast path; MessagePack defines {first[3] if first[3] is not None else 'no size determined by the marker alone'} for it ({len(bad)} byte value(s) disagree): the value is cut at the wrong byte")
    ctx.ob("raw-byte-paths-examined", True, site(scope[0]), f"{total_groups} raw first-byte fast path(s) in the size calculator ({len(scope)} bodies)", trivial=total_groups == 0)
    # positive control: the same analysis flags the wrong mask in the control crate
    ctl = ctx.facts.controls
    if ctl:
        cb = [x for x in ctl.bodies if x.name == "raw_marker_fast_path"]
        if cb:
            ng, nv, bad = raw_marker_findings(cb[0], table)
            ctx.ob("control:raw-marker-sizes", ng == 1 and len(bad) == 31, "tables/controls/src/lib.rs", f"control fast path with a too-wide fixstr mask: {len(bad)} byte value(s) flagged (negative fixints 0xe1..=0xff; 0xe0 happens to get size 1)", trivial=True)
        else:
            ctx.ob("control:raw-marker-sizes", False, "tables/controls/src/lib.rs", "control function raw_marker_fast_path not found")


def _small_const(b, op, depth=0):
    """Integer value of an operand that is a constant, a copy of one, or checked arithmetic over such (`MAX - 1`)."""
    if depth > 5:
        return None
    v = const_value(op)
    if isinstance(v, int) and not isinstance(v, bool):
        return v
    if not is_place(op):
        return None
    pr = op["p"]["pr"]
    if pr and not (len(pr) == 1 and pr[0]["k"] == "field" and str(pr[0].get("name")) == "0"):
        return None
    ds = b.whole_defs(op["p"]["l"])
    if len(ds) != 1 or ds[0][2] != "assign":
        return None
    rv = ds[0][3]["rv"]
    if rv["k"] == "use" and not pr:
        return _small_const(b, rv["op"], depth + 1)
    if rv["k"] == "binop" and (bool(pr) == rv["op"].endswith("WithOverflow")):
        x, y = _small_const(b, rv["a"], depth + 1), _small_const(b, rv["b"], depth + 1)
        if x is None or y is None:
            return None
        opn = rv["op"].replace("WithOverflow", "").replace("Unchecked", "")
        if opn == "Add":
            return x + y
        if opn == "Sub" and x >= y:
            return x - y
        if opn == "Mul":
            return x * y
    return None


def _copy_root(b, l, depth=0):
    """Follow single-definition plain copies of a local back to where the value comes from."""
    ds = b.whole_defs(l)
    if depth < 8 and len(ds) == 1 and ds[0][2] == "assign" and ds[0][3]["rv"]["k"] == "use" and is_place(ds[0][3]["rv"]["op"]) and not ds[0][3]["rv"]["op"]["p"]["pr"]:
        return _copy_root(b, ds[0][3]["rv"]["op"]["p"]["l"], depth + 1)
    return l


def _advanced_in_step(b, counter, whole, test_block):
    """The remainder local R with the loop invariant len(R) == len(whole) - counter, or None: `counter` starts at 0 and
    its only other definition adds a step S to it; R starts as `whole` and its only other definition is `&R[S..]` with
    the same S; between two evaluations of a test at the loop head both advance exactly once."""
    cds = b.whole_defs(counter)
    if len(cds) != 2:
        return None
    step = adv_c = None
    init_ok = False
    for db, _, kind, payload in cds:
        if kind != "assign":
            return None
        rv = payload["rv"]
        if rv["k"] == "use" and const_value(rv["op"]) == 0:
            init_ok = True
            continue
        src = rv
        if rv["k"] == "use" and is_place(rv["op"]) and [e["k"] for e in rv["op"]["p"]["pr"]] == ["field"]:
            ads = b.whole_defs(rv["op"]["p"]["l"])
            if len(ads) == 1 and ads[0][2] == "assign":
                src = ads[0][3]["rv"]
        if src["k"] == "binop" and src["op"] in ("Add", "AddWithOverflow"):
            for x, y in ((src["a"], src["b"]), (src["b"], src["a"])):
                if is_place(x) and not x["p"]["pr"] and x["p"]["l"] == counter and is_place(y) and not y["p"]["pr"]:
                    step, adv_c = _copy_root(b, y["p"]["l"]), db
    if not init_ok or step is None:
        return None
    for rem in range(len(b.locals)):
        if not b.local_ty(rem).startswith("&"):
            continue
        rds = b.whole_defs(rem)
        if len(rds) != 2:
            continue
        init = adv_r = None
        for db, _, kind, payload in rds:
            if kind != "assign" or payload["rv"]["k"] != "use" or not is_place(payload["rv"]["op"]):
                init = adv_r = None
                break
            src = _slice_root(b, payload["rv"]["op"])
            if src == whole:
                init = db
                continue
            ids = b.whole_defs(src) if src is not None else []
            if len(ids) == 1 and ids[0][2] == "call":
                t = ids[0][3]
                f = fn_of(t) or {}
                if f.get("trait") in SLICING and len(t["args"]) == 2 and _slice_root(b, t["args"][0]) == rem:
                    rt = trace(b, t["args"][1])
                    if rt.origin and rt.origin[0] == "agg" and rt.origin[1]["rv"].get("variant", rt.origin[1]["rv"].get("agg", "")).endswith("RangeFrom"):
                        o = rt.origin[1]["rv"]["ops"][0]
                        if is_place(o) and not o["p"]["pr"] and _copy_root(b, o["p"]["l"]) == step:
                            adv_r = db
        if init is None or adv_r is None:
            continue
        # both advance once per trip: neither can be skipped or repeated on the way back to itself
        if adv_c in b.reachable_from(b.succ(adv_c), removed_nodes=[adv_r]) or adv_r in b.reachable_from(b.succ(adv_r), removed_nodes=[adv_c]):
            continue
        # ... and the test is not evaluated between the two advances
        if adv_c != adv_r and test_block in b.reachable_from(b.succ(adv_c), removed_nodes=[adv_r]) and test_block in b.reachable_from(b.succ(adv_r), removed_nodes=[adv_c]):
            continue
        return rem
    return None


def _nonempty_edges(b, atleast=1):
    """[(root slice local, (src block, dst block))]: CFG edges of body b on which that slice is known to be non-empty
    (`is_empty()` false, a length compared with a constant, a `[]` pattern not matched, `first()`/`split_first()` Some);
    with `atleast` = K > 1: edges on which its length is known to be at least K (length comparisons only)."""
    out = []
    K = atleast
    cur = [None]

    def resolve(op, neg=False, depth=0):
        """-> ('bool', root, value_when_empty) | ('len', root) | ('opt', root) | None"""
        if not is_place(op) or op["p"]["pr"] or depth > 6:
            return None
        l = op["p"]["l"]
        root = _len_of(b, op)
        if root is not None:
            return ("len", root)
        ds = b.whole_defs(l)
        if len(ds) != 1:
            return None
        _, _, kind, payload = ds[0]
        if kind == "call":
            f = fn_of(payload) or {}
            d = f.get("def", "")
            if d.startswith("core::slice") and f.get("name") == "is_empty" and payload["args"]:
                r = _slice_root(b, payload["args"][0])
                return ("bool", r, 0 if neg else 1) if r is not None and K == 1 else None
            if d.startswith("core::slice") and f.get("name") in ("first", "split_first", "last", "split_last", "first_mut") and payload["args"]:
                r = _slice_root(b, payload["args"][0])
                return ("opt", r) if r is not None and K == 1 else None
            return None
        rv = payload["rv"]
        if rv["k"] == "use":
            return resolve(rv["op"], neg, depth + 1)
        if rv["k"] == "unop" and rv["op"] == "Not":
            return resolve(rv["a"], not neg, depth + 1)
        if rv["k"] == "discr":
            inner = resolve({"k": "copy", "p": {"l": rv["p"]["l"], "pr": []}}, neg, depth + 1) if not rv["p"]["pr"] else None
            return inner if inner and inner[0] == "opt" else None
        if rv["k"] == "binop" and rv["op"] in ("Eq", "Ne", "Lt", "Le", "Gt", "Ge"):
            for x, y, flip in ((rv["a"], rv["b"], False), (rv["b"], rv["a"], True)):
                c = _small_const(b, y)
                r = _len_of(b, x) if is_place(x) else None
                if r is None or not isinstance(c, int):
                    continue
                vals = set()
                for short in range(K):
                    lhs, rhs = (short, c) if not flip else (c, short)
                    vals.add({"Eq": lhs == rhs, "Ne": lhs != rhs, "Lt": lhs < rhs, "Le": lhs <= rhs, "Gt": lhs > rhs, "Ge": lhs >= rhs}[rv["op"]])
                if len(vals) != 1:
                    return None  # lengths below K fall on both sides of this test
                v = int(vals.pop()) ^ int(neg)
                return ("bool", r, v)
            if rv["op"] in ("Eq", "Ne") and K == 1:
                # `consumed == whole.len()` where a remainder is advanced in step with the counter
                for x, y in ((rv["a"], rv["b"]), (rv["b"], rv["a"])):
                    whole = _len_of(b, x) if is_place(x) else None
                    if whole is None or not is_place(y) or y["p"]["pr"]:
                        continue
                    rem = _advanced_in_step(b, _copy_root(b, y["p"]["l"]), whole, cur[0])
                    if rem is not None:
                        return ("bool", rem, int(rv["op"] == "Eq") ^ int(neg))
        return None

    for bi in sorted(b.reach()):
        t = b.blocks[bi]["term"]
        if t["k"] != "switch":
            continue
        cur[0] = bi
        r = resolve(t["discr"])
        if r is None:
            continue
        if r[0] == "bool":
            when_empty = r[2]
            for v, tgt in t["targets"]:
                if v != when_empty:
                    out.append((r[1], (bi, tgt)))
            if when_empty in [v for v, _ in t["targets"]] and when_empty != "otherwise":
                # the otherwise edge carries every value not listed: with the empty value listed it is non-empty
                out.append((r[1], (bi, t["otherwise"])))
        elif r[0] == "len":
            listed = [v for v, _ in t["targets"]]
            for v, tgt in t["targets"]:
                if isinstance(v, int) and v >= K:
                    out.append((r[1], (bi, tgt)))
            if all(short in listed for short in range(K)):
                out.append((r[1], (bi, t["otherwise"])))
        elif r[0] == "opt":
            for v, tgt in t["targets"]:
                if v == 1:
                    out.append((r[1], (bi, tgt)))
    return out


@rule("R04.8", 1, "the work of the MessagePack size calculator is bounded by the input, not by a declared element count: a sizing call that is repeated (in a loop or an iterator closure) is only made on a remainder that was just tested non-empty, so a 5-byte header announcing 2^32-1 elements ends at the first missing element instead of spinning", ["C04"])
def r04_8(ctx):
    import r_c18

    lib = ctx.lib
    sccs, _ = r_c18._sccs(lib)
    ctx.need(sccs, "size calculator (recursive component) not found")
    comp = set(sccs[0])
    n = 0
    for b in lib.bodies:
        if r_c18._root_of(lib, b).id not in comp:
            continue
        is_closure = b.raw["def_kind"] == "Closure"
        edges = None
        for bb, t in b.calls():
            f = fn_of(t) or {}
            cal = lib.by_id.get(f.get("resolved") or f.get("def")) if f.get("local") else None
            if cal is None or r_c18._root_of(lib, cal).id not in comp or not t["args"]:
                continue
            on_cycle = t["target"] is not None and bb in b.reachable_from(t["target"])
            if not (on_cycle or is_closure):
                continue
            # only callees that answer "0 bytes" for an empty input need the caller's guard
            n += 1
            root = _slice_root(b, t["args"][0])
            if edges is None:
                edges = _nonempty_edges(b)
            ok = False
            why = "the remainder passed to this repeated sizing call is not tested for emptiness first"
            for r, (src, dst) in edges:
                if r != root:
                    continue
                starts = [0] + [db for db, _, _, _ in b.whole_defs(root)]
                reach = b.reachable_from(starts, removed_edges=[(src, dst)])
                # a definition in the call's own block cannot come before the call (the call ends the block)
                if bb not in reach:
                    ok = True
                    break
                why = "an emptiness test of the remainder exists, but the call can be reached without passing its non-empty edge after the remainder was last advanced"
            ctx.ob(f"repeated-call-on-nonempty:{r_c18._root_of(lib, b).name}:{_nth(_r048_seen, (ctx.config, r_c18._root_of(lib, b).id))}", ok, site(b, bb),
                   "repeated sizing call guarded: the slice it is given was tested non-empty since it was last advanced" if ok else
                   why + ": with input that ends early every remaining iteration sizes an empty slice as 0 bytes, and a declared count of up to 2^32-1 (per nesting level) is run through without consuming anything")
    _r048_seen.clear()
    ctx.ob("repeated-sizing-calls", n >= 1, "lib", f"{n} repeated call(s) into the size calculator examined")


_r048_seen = {}
_g8_seen = {}


def _error_skipping_adaptors(crate):
    """[(body, bb, term, what)]: iterator adaptors that drop the Err items of an iterator of Results and go on:
    `filter_map(Result::ok)`, `flat_map(Result::ok)`, `flatten()` over Results, `filter(Result::is_ok)`,
    `filter_map(|r| r.ok())`."""
    out = []
    for b in crate.bodies:
        for bb, t in b.calls():
            f = fn_of(t) or {}
            if f.get("trait") != "std::iter::Iterator" and "iter::Iterator" not in f.get("def", ""):
                continue
            name = f.get("name")
            targs = " ".join(str(a) for a in (f.get("args") or []))
            if name in ("filter_map", "flat_map", "filter", "map_while") and len(t["args"]) == 2:
                a = t["args"][1]
                fn_def = a.get("def") if a.get("k") in ("fn", "const") else None
                if fn_def is None and "fn(" not in targs and "{closure" not in targs:
                    tr = trace(b, a)
                    if tr.origin and tr.origin[0] == "const":
                        fn_def = tr.origin[1].get("def")
                if name in ("filter_map", "flat_map") and (fn_def == "std::result::Result::<T, E>::ok" or "Result::<T, E>::ok" in targs or "Result<" in targs and "::ok}" in targs):
                    out.append((b, bb, t, f"{name}(Result::ok)"))
                    continue
                if name == "filter" and (fn_def == "std::result::Result::<T, E>::is_ok" or "Result::<T, E>::is_ok" in targs):
                    out.append((b, bb, t, "filter(Result::is_ok)"))
                    continue
                # a closure that does nothing but `.ok()` on its argument
                for cid in f.get("closures", []):
                    cb = crate.by_id.get(cid)
                    if cb is None or name not in ("filter_map", "flat_map"):
                        continue
                    rt = trace(cb, {"k": "copy", "p": {"l": 0, "pr": []}})
                    if rt.origin and rt.origin[0] == "call" and (fn_of(rt.origin[2]) or {}).get("def") == "std::result::Result::<T, E>::ok" and all(s_[0] == "use" for s_ in rt.steps):
                        at = trace(cb, rt.origin[2]["args"][0])
                        if at.origin and at.origin[0] == "arg" and at.origin[1] == 2 and all(s_[0] in ("use", "deref", "field") for s_ in at.steps):
                            out.append((b, bb, t, f"{name}(|r| r.ok())"))
            elif name == "flatten" and t["args"]:
                st = str(f.get("self_ty") or "") + " " + targs
                # Item = Result<..>: visible in the adaptor's type arguments
                ity = b.local_ty(t["dest"]["l"]) if t.get("dest") else ""
                if "Result<" in st or re.search(r"Flatten<.*Result<", ity or ""):
                    out.append((b, bb, t, "flatten() over Results"))
    return out


@rule("R04.9", 1, "no error is filtered out of a fallible iterator: `filter_map(Result::ok)`, `flat_map(Result::ok)`, `flatten()` over Results and `filter(Result::is_ok)` keep asking a source that may answer `Err` for ever (libyaml after a parser error, a reader in a failed state) and never end", ["C04", "C12"])
def r04_9(ctx):
    n = 0
    for crate in (ctx.lib, ctx.bin):
        for b, bb, t, what in _error_skipping_adaptors(crate):
            n += 1
            ctx.ob(f"errors-skipped:{crate.kind}:{b.name}:{what}", False, site(b, bb), f"`{what}` drops the errors of a fallible iterator and goes on with the next item: when the source keeps failing (a parser that has stopped, a broken reader) the loop spins for ever, and the failure is never reported; `map_while(Result::ok)` or `?` ends at the first error")
    ctx.ob("error-skipping-adaptors", n == 0, "lib+bin", f"{n} error-skipping iterator adaptor(s) in xt")
    ctl = ctx.facts.controls
    found = {w for _, _, _, w in _error_skipping_adaptors(ctl)} if ctl is not None else set()
    for want in ("filter_map(Result::ok)", "flatten() over Results"):
        ctx.ob(f"control:error-skip:{want}", want in found, "tables/controls/src/lib.rs", "matcher fires on the positive control" if want in found else "matcher does not see its own positive control (the rule would be vacuous)", trivial=True)
