"""Deny-lists with positive controls.

A deny-list rule expects zero matches in (parts of) xt. To keep that from being vacuous, every entry
must match at least once in the positive-control crate (tables/controls), compiled with the same
driver on every run; `control_obligations` emits one obligation per entry.
"""
from model import fn_of, site


def _name_in(names):
    return lambda f: f["name"] in names


LISTS = {
    # adaptors that drop / reorder / duplicate items of an iterator or vector
    "reorder": {
        "rev": lambda f: f["name"] == "rev" and "Iterator" in f.get("trait", "") + f["def"],
        "sort*": lambda f: f["name"].startswith("sort"),
        "dedup*": lambda f: f["name"].startswith("dedup"),
        "retain": lambda f: f["name"].startswith("retain"),
        "reverse": lambda f: f["name"] == "reverse",
        "swap*": lambda f: f["name"] in ("swap", "swap_remove", "swap_with_slice"),
        "skip*": lambda f: f["name"] in ("skip", "skip_while") and "Iterator" in f.get("trait", "") + f["def"],
        "step_by": lambda f: f["name"] == "step_by",
        "take*": lambda f: f["name"] in ("take", "take_while") and "iter::Iterator" in f.get("trait", "") + f["def"],
        "filter*": lambda f: f["name"] in ("filter", "filter_map") and "Iterator" in f.get("trait", "") + f["def"],
        "nth": lambda f: f["name"] in ("nth", "nth_back"),
        "last": lambda f: f["name"] == "last" and "Iterator" in f.get("trait", "") + f["def"],
        # (a byte buffer is not a collection of inputs or documents: shortening a Vec<u8> is buffer management)
        "truncate": lambda f: f["name"] == "truncate" and not (f["def"].startswith("std::vec::Vec") and f.get("args", [])[:1] == ["u8"]),
    },
    "slurp": {
        "read_to_end": lambda f: f["name"] == "read_to_end",
        "read_to_string": lambda f: f["name"] == "read_to_string" and not f["def"].startswith("std::fs::"),
        "fs::read": lambda f: f["def"] == "std::fs::read",
        "fs::read_to_string": lambda f: f["def"] == "std::fs::read_to_string",
    },
    "stdio": {
        "stdout": lambda f: f["def"] == "std::io::stdout",
        "stderr": lambda f: f["def"] == "std::io::stderr",
        "stdin": lambda f: f["def"] == "std::io::stdin",
        "print!": lambda f: f["def"] == "std::io::_print",
        "eprint!": lambda f: f["def"] == "std::io::_eprint",
        "process::exit": lambda f: f["def"] == "std::process::exit",
    },
    "unsafe-producers": {
        "slice::from_raw_parts*": lambda f: f["name"] in ("from_raw_parts", "from_raw_parts_mut"),
        "set_len": lambda f: f["name"] == "set_len",
        "ptr::read*": lambda f: f["def"].startswith("std::ptr::read") or f["def"].startswith("core::ptr::read"),
        "ptr::write*": lambda f: f["def"].startswith("std::ptr::write") or f["def"].startswith("core::ptr::write"),
        "zeroed": lambda f: f["name"] in ("zeroed", "uninitialized"),
        "get_unchecked*": lambda f: f["name"] in ("get_unchecked", "get_unchecked_mut"),
    },
    # a single attempt whose byte count the caller must handle: xt's own output always goes through the complete forms
    "bare-write": {
        "Write::write": lambda f: f.get("trait") == "std::io::Write" and f["name"] == "write",
        "Write::write_vectored": lambda f: f.get("trait") == "std::io::Write" and f["name"] == "write_vectored",
    },
    # ways of opening an input file other than the plain blocking read-only open
    "open-modes": {
        "custom_flags": lambda f: f["name"] == "custom_flags" and "OpenOptions" in f.get("trait", "") + f["def"],
        "OpenOptions::write*": lambda f: f["def"].startswith("std::fs::OpenOptions::") and f["name"] in ("write", "append", "truncate", "create", "create_new"),
    },
    "discard": {
        "Result::ok": lambda f: f["def"] == "std::result::Result::<T, E>::ok",
        "Result::is_ok": lambda f: f["def"] in ("std::result::Result::<T, E>::is_ok", "std::result::Result::<T, E>::is_err"),
        "Result::unwrap_or*": lambda f: f["def"].startswith("std::result::Result::<T, E>::unwrap_or"),
        "Result::or": lambda f: f["def"] in ("std::result::Result::<T, E>::or",),
    },
}


def hits(bodies, listname, exclude_expansion=False):
    """[(entry, body, bb, term)] matches of a deny-list in the given bodies."""
    out = []
    for b in bodies:
        for bb, t in b.calls():
            f = fn_of(t)
            if not f:
                continue
            for entry, pred in LISTS[listname].items():
                try:
                    if pred(f):
                        out.append((entry, b, bb, t))
                except KeyError:
                    pass
    return out


def control_obligations(ctx, listname):
    """One obligation per entry: the matcher sees its construct in the positive-control crate."""
    ctl = ctx.facts.controls
    if ctl is None:
        ctx.ob(f"control:{listname}", False, "tables/controls", "positive-control crate facts missing")
        return
    found = {e for e, _, _, _ in hits(ctl.bodies, listname)}
    for entry in LISTS[listname]:
        ctx.ob(f"control:{listname}:{entry}", entry in found, "tables/controls/src/lib.rs",
               "matcher fires on the positive control" if entry in found else "matcher does not see its own positive control (deny-list would be vacuous)", trivial=True)
