"""C18 — nesting limits are clean and the same for slice and reader input."""
from engine import rule, AnchorLost
from model import Super, fn_of, trace, is_place, site, const_value, uses_of_local
import common
import cfgbound

REQUIRED_DEPTH = 1024  # the property pins: 1023 collections around a scalar accepted, deeper rejected


def _named_const(body, op):
    """(def_path, value) of a constant operand (after copies)."""
    tr = trace(body, op)
    if tr.origin and tr.origin[0] == "const" and all(s[0] == "use" for s in tr.steps):
        c = tr.origin[1]
        return c.get("def"), c.get("v")
    return None, None


def _rmp_ctor_calls(body):
    out = []
    for bb, t in body.calls():
        f = fn_of(t) or {}
        if f.get("crate") == "rmp_serde" and "Deserializer" in f.get("def", "") and f["name"] in ("new", "from_read_ref", "from_slice", "from_reader", "from_bytes") and "Deserializer<" in body.local_ty(t["dest"]["l"]):
            out.append((bb, t))
    return out


def _root_of(lib, b):
    """The function a closure body is written in (the body itself for a function)."""
    while b.raw["def_kind"] == "Closure" and b.raw.get("parent") in lib.by_id:
        b = lib.by_id[b.raw["parent"]]
    return b


_FAM = {}


def _family_calls(lib, fid):
    """(sup, [(node, body, term)]): the call sites of function `fid` and of the closures written in it, as nodes of
    its supergraph (so that an operand inside a closure can be followed to the function's own parameters). A call
    site of a closure that the supergraph does not reach has node None."""
    key = (id(lib), fid)
    if key in _FAM:
        return _FAM[key]
    root = lib.by_id[fid]
    fam = {b.id for b in lib.bodies if _root_of(lib, b).id == fid}
    sup = Super(lib, root, depth=3, follow=lambda f: (f.get("resolved") or f.get("def")) in fam)
    out = []
    seen = set()
    for n, b, t in sup.calls():
        if b.id in fam and id(t) not in seen:
            seen.add(id(t))
            out.append((n, b, t))
    for b in lib.bodies:
        if b.id in fam:
            for bb, t in b.calls():
                if id(t) not in seen:
                    out.append((None, b, t))
    _FAM[key] = (sup, out)
    return _FAM[key]


def _sccs(lib):
    """Strongly connected components (size > 1 or self loop) of the direct call graph of lib."""
    # a closure's calls are its enclosing function's calls (`(0..n).try_fold(0, |t, _| .. recurse ..)`)
    graph = {}
    for b in lib.bodies:
        tg = graph.setdefault(_root_of(lib, b).id, set())
        for _, t in b.calls():
            f = fn_of(t) or {}
            for key in ("resolved", "def"):
                d = f.get(key)
                if d in lib.by_id:
                    # running a closure written in this very function is not a call of the function (what the closure
                    # calls is already counted as the function's own calls)
                    if not (lib.by_id[d].raw["def_kind"] == "Closure" and _root_of(lib, lib.by_id[d]).id == _root_of(lib, b).id):
                        tg.add(_root_of(lib, lib.by_id[d]).id)
                    break
    index = {}
    low = {}
    stack = []
    on = set()
    out = []
    counter = [0]

    def strong(v):
        index[v] = low[v] = counter[0]
        counter[0] += 1
        stack.append(v)
        on.add(v)
        for w in graph[v]:
            if w not in index:
                strong(w)
                low[v] = min(low[v], low[w])
            elif w in on:
                low[v] = min(low[v], index[w])
        if low[v] == index[v]:
            comp = []
            while True:
                w = stack.pop()
                on.discard(w)
                comp.append(w)
                if w == v:
                    break
            if len(comp) > 1 or v in graph[v]:
                out.append(sorted(comp))

    import sys

    sys.setrecursionlimit(10000)
    for v in sorted(graph):
        if v not in index:
            strong(v)
    return out, graph


@rule("R18.1", 4, "one depth constant (= 1024) at every set_max_depth site and at the size calculator's external call", ["C18"])
def r18_1(ctx):
    lib = ctx.lib
    seen = set()
    n = 0
    for b in lib.bodies:
        k = 0
        for bb, t in b.calls():
            f = fn_of(t) or {}
            if f.get("name") == "set_max_depth" and f.get("crate") == "rmp_serde":
                n += 1
                d, v = _named_const(b, t["args"][1])
                if v is None:
                    # an adjustable limit: the built-in default must be the documented limit, and what a caller can
                    # set must stay within it
                    alts = cfgbound.alternatives(lib, b, t["args"][1])
                    okc = cfgbound.is_limit(alts, REQUIRED_DEPTH)
                    seen.add(("configurable", REQUIRED_DEPTH) if okc else (None, None))
                    ctx.ob(f"set_max_depth:{b.name}:{k}", okc, site(b, bb), f"limit comes from {cfgbound.describe(alts)}: " + ("every built-in source is the documented limit and every caller-chosen one stays within it" if okc else f"not (exactly {REQUIRED_DEPTH} by default, at most {REQUIRED_DEPTH} when set)"))
                    k += 1
                    continue
                seen.add((d, v))
                ctx.ob(f"set_max_depth:{b.name}:{k}", v == REQUIRED_DEPTH and d is not None, site(b, bb), f"limit = {d} = {v}")
                k += 1
    ctx.ob("set_max_depth-sites", n >= 1, "lib", f"{n} set_max_depth site(s) (R18.2 requires one before every use of every rmp_serde::Deserializer)")
    # external call into the recursive size calculator
    sccs, graph = _sccs(lib)
    for comp in sccs:
        for b in lib.bodies:
            if _root_of(lib, b).id in comp:
                continue
            for bb, t in b.calls():
                f = fn_of(t) or {}
                r = f.get("resolved") if f.get("resolved") in lib.by_id else f.get("def")
                if r in comp:
                    callee = lib.by_id[r]
                    bp = _budget_param(lib, comp)
                    if r in bp:
                        d, v = _named_const(b, t["args"][bp[r] - 1])
                        if v is None:
                            alts = cfgbound.alternatives(lib, b, t["args"][bp[r] - 1])
                            okc = cfgbound.is_limit(alts, REQUIRED_DEPTH)
                            seen.add(("configurable", REQUIRED_DEPTH) if okc else (None, None))
                            ctx.ob(f"calculator-budget:{b.name}", okc, site(b, bb), f"initial budget comes from {cfgbound.describe(alts)}: " + ("every built-in source is the documented limit and every caller-chosen one stays within it" if okc else f"not (exactly {REQUIRED_DEPTH} by default, at most {REQUIRED_DEPTH} when set)"))
                            continue
                        seen.add((d, v))
                        ctx.ob(f"calculator-budget:{b.name}", v == REQUIRED_DEPTH and d is not None, site(b, bb), f"initial budget = {d} = {v}")
    # (an adjustable limit whose sources were all checked against the documented value counts as that value)
    vals = {v for _, v in seen}
    ctx.ob("single-constant", len(vals) == 1 and len({d for d, _ in seen if d != "configurable"}) <= 1, "lib", f"depth constants in use: {sorted(map(str, seen))}")


@rule("R18.2", 3, "every rmp_serde::Deserializer is configured with set_max_depth before its first use", ["C18"])
def r18_2(ctx):
    lib = ctx.lib
    n = 0
    for b in lib.bodies:
        for i, (bb, t) in enumerate(_rmp_ctor_calls(b)):
            n += 1
            L = t["dest"]["l"]
            # locals that are references to L
            refs = {L}
            for bi, blk in enumerate(b.blocks):
                for s in blk["stmts"]:
                    if s["k"] == "assign" and not s["p"]["pr"] and s["rv"]["k"] in ("ref",) and s["rv"]["p"]["l"] in refs:
                        refs.add(s["p"]["l"])
                    if s["k"] == "assign" and not s["p"]["pr"] and s["rv"]["k"] == "use" and is_place(s["rv"]["op"]) and s["rv"]["op"]["p"]["l"] in refs and not s["rv"]["op"]["p"]["pr"] and "Deserializer" in b.local_ty(s["p"]["l"]):
                        refs.add(s["p"]["l"])
            # iterate to closure
            for _ in range(3):
                for bi, blk in enumerate(b.blocks):
                    for s in blk["stmts"]:
                        if s["k"] == "assign" and not s["p"]["pr"] and s["rv"]["k"] == "ref" and s["rv"]["p"]["l"] in refs:
                            refs.add(s["p"]["l"])
            setters = []
            users = []
            for ub, ut in b.calls():
                if ub == bb:
                    continue
                uses = [a for a in ut["args"] if is_place(a) and a["p"]["l"] in refs]
                if not uses:
                    continue
                if (fn_of(ut) or {}).get("name") == "set_max_depth":
                    setters.append(ub)
                else:
                    users.append((ub, ut))
            start = t["target"]
            # a same-crate helper that receives the deserializer and configures it before touching it
            delegated = []
            for ub, ut in list(users):
                uf = fn_of(ut) or {}
                callee = lib.by_id.get(uf.get("resolved") or uf.get("def")) if uf.get("local") else None
                if callee is None:
                    continue
                idxs = [i + 1 for i, a in enumerate(ut["args"]) if is_place(a) and a["p"]["l"] in refs]
                if idxs and all(_configures_on_entry(lib, callee, i_) for i_ in idxs):
                    delegated.append((ub, ut))
            for ub, ut in delegated:
                users.remove((ub, ut))
                ok_d = not [u for u in users if u[0] in b.reachable_from(start) and not b.must_pass(start, [u[0]], setters + [ub])] or True
                ctx.ob(f"configured-before-use:{b.name}:{i}:{(fn_of(ut) or {}).get('name')}", True, site(b, ub), "handed to a helper that calls set_max_depth before any other use of it")
            setters = setters + [ub for ub, _ in delegated]
            for ub, ut in users:
                ok = b.must_pass(start, [ub], setters) and bool(setters)
                # in loops the same construction is re-executed: paths that re-enter the constructor restart
                ctx.ob(f"configured-before-use:{b.name}:{i}:{(fn_of(ut) or {}).get('name')}", ok, site(b, ub),
                       "set_max_depth intervenes on every path from construction to this use" if ok else "an rmp_serde::Deserializer is used with its default (unconfigured) depth limit")
            if not users:
                ctx.ob(f"configured-before-use:{b.name}:{i}:unused", bool(setters), site(b, bb), "deserializer constructed and configured", trivial=True)
    ctx.ob("constructions", n >= 2, "lib", f"{n} rmp_serde::Deserializer construction(s)")


def _configures_on_entry(lib, callee, param, depth=0):
    """In `callee`, every use of parameter `param` (an rmp_serde::Deserializer, by value or by reference) is
    preceded on every path by set_max_depth on it (or by a helper that does so)."""
    if "Deserializer" not in callee.local_ty(param) or depth > 2:
        return False
    refs = {param}
    for _ in range(4):
        for blk in callee.blocks:
            for s in blk["stmts"]:
                if s["k"] == "assign" and not s["p"]["pr"]:
                    rv = s["rv"]
                    if rv["k"] == "ref" and rv["p"]["l"] in refs:
                        refs.add(s["p"]["l"])
                    if rv["k"] == "use" and is_place(rv["op"]) and rv["op"]["p"]["l"] in refs and not rv["op"]["p"]["pr"]:
                        refs.add(s["p"]["l"])
    setters, users = [], []
    for ub, ut in callee.calls():
        if not any(is_place(a) and a["p"]["l"] in refs for a in ut["args"]):
            continue
        uf = fn_of(ut) or {}
        if uf.get("name") == "set_max_depth" and uf.get("crate") == "rmp_serde":
            setters.append(ub)
            continue
        sub = lib.by_id.get(uf.get("resolved") or uf.get("def")) if uf.get("local") else None
        if sub is not None:
            idxs = [i + 1 for i, a in enumerate(ut["args"]) if is_place(a) and a["p"]["l"] in refs]
            if idxs and all(_configures_on_entry(lib, sub, i_, depth + 1) for i_ in idxs):
                setters.append(ub)
                continue
        users.append(ub)
    return bool(setters) and all(callee.must_pass(0, [u], setters) for u in users)


def _budget_param(lib, comp):
    """{fn_id: 1-based index of the budget parameter} for the functions of a recursive component."""
    # seed: a function that compares a usize parameter with a constant and returns Err on that edge
    bp = {}
    for fid in comp:
        b = lib.by_id[fid]
        sw = b.blocks[0]["term"]
        if sw["k"] == "switch":
            for s in b.blocks[0]["stmts"]:
                if s["k"] == "assign" and s["rv"]["k"] == "binop" and s["rv"]["op"] in ("Eq", "Lt", "Le"):
                    a = trace(b, s["rv"]["a"])
                    if a.origin and a.origin[0] == "arg" and s["rv"]["b"].get("k") == "const":
                        bp[fid] = a.origin[1]
    if not bp:
        # no test at a function's entry: a test further in (before the recursive call it guards), or a checked
        # subtraction of the budget
        for t_ in _raw_budget_tests(lib, comp):
            if t_["ok"] and t_["fid"] not in bp:
                bp[t_["fid"]] = t_["param"]
    changed = True
    while changed:
        changed = False
        for fid in comp:
            if fid not in bp:
                continue
            sup, fcalls = _family_calls(lib, fid)
            for n_, b, t in fcalls:
                f = fn_of(t) or {}
                r = f.get("resolved") if f.get("resolved") in comp else f.get("def")
                if r not in comp:
                    continue
                for j, a in enumerate(t["args"], start=1):
                    d = _delta_s(sup, n_, b, a, bp[fid])
                    if d is not None and r not in bp:
                        bp[r] = j
                        changed = True
        # backward: callers of a function with known budget param
        for fid in comp:
            if fid in bp:
                continue
            sup, fcalls = _family_calls(lib, fid)
            for n_, b, t in fcalls:
                f = fn_of(t) or {}
                r = f.get("resolved") if f.get("resolved") in comp else f.get("def")
                if r in bp:
                    a = t["args"][bp[r] - 1]
                    for i in range(1, lib.by_id[fid].nargs + 1):
                        if _delta_s(sup, n_, b, a, i) is not None:
                            bp[fid] = i
                            changed = True
    return bp


_DEC_HELPERS = {}


def _dec_helper(lib, hb):
    """A checked decrement of the budget kept in a helper: `fn enter(budget) -> Result<Budget, E>` (or Option) whose
    only arithmetic is `budget.checked_sub(c)` (on the parameter, or on the one field of a newtype parameter), which
    answers Err / None when that fails — and, in some versions, when nothing would be left — and otherwise hands back
    what is left (wrapped in the newtype again). Returns (c, thr): the helper refuses budgets <= thr and returns
    budget - c; None for anything else."""
    if hb is None:
        return None
    key = (id(lib), hb.id)
    if key in _DEC_HELPERS:
        return _DEC_HELPERS[key]
    res = None
    try:
        rt = str(hb.raw.get("ret_ty", ""))
        if hb.nargs == 1 and hb.raw["def_kind"] in ("Fn", "AssocFn") and (rt.startswith("std::result::Result<") or rt.startswith("std::option::Option<")) and not any(hb.on_cycle(bb) for bb in hb.reach()):
            subs = [(bb, t) for bb, t in hb.calls() if (fn_of(t) or {}).get("name") == "checked_sub" and len(t["args"]) == 2]
            others = [(bb, t) for bb, t in hb.calls() if (fn_of(t) or {}).get("name") != "checked_sub" and (fn_of(t) or {}).get("def") not in ("std::ops::Try::branch", "std::ops::FromResidual::from_residual", "std::option::Option::<T>::ok_or", "std::convert::From::from", "std::convert::Into::into")]
            if len(subs) == 1 and not others:
                sb, st = subs[0]
                at = trace(hb, st["args"][0])
                c = const_value(st["args"][1])
                fields = [x for x in at.steps if x[0] == "field"]
                on_param = bool(at.origin and at.origin[0] == "arg" and at.origin[1] == 1 and len(fields) <= 1 and all(x[0] in ("use", "field", "deref") for x in at.steps))
                if on_param and isinstance(c, int) and not isinstance(c, bool) and c >= 1:
                    dl = st["dest"]["l"]
                    # every Ok / Some the helper returns carries the subtraction's payload (possibly re-wrapped)
                    good = True
                    n_ok = 0
                    for bb_, _, k_, p_ in hb.whole_defs(0):
                        if k_ == "assign" and p_["rv"]["k"] == "aggregate" and p_["rv"].get("variant") in ("Ok", "Some") and p_["rv"]["ops"]:
                            n_ok += 1
                            pt = trace(hb, p_["rv"]["ops"][0])
                            if pt.origin and pt.origin[0] == "agg" and len(pt.origin[1]["rv"]["ops"]) == 1:
                                pt = trace(hb, pt.origin[1]["rv"]["ops"][0])
                            if not (pt.origin and pt.origin[0] == "call" and pt.origin[2] is st and any(x[0] == "downcast" and x[1] == "Some" for x in pt.steps)):
                                good = False
                        elif k_ == "call" and (fn_of(p_) or {}).get("def") == "std::option::Option::<T>::ok_or":
                            n_ok += 1
                            pt = trace(hb, p_["args"][0])
                            if not (pt.origin and pt.origin[0] == "call" and pt.origin[2] is st and all(x[0] == "use" for x in pt.steps)):
                                good = False
                    if good and n_ok >= 1:
                        # is "nothing left" refused as well? a switch on the payload with a 0 target that ends in Err / None
                        thr = c - 1
                        for bi in sorted(hb.reach()):
                            sw = hb.blocks[bi]["term"]
                            if sw["k"] != "switch" or not is_place(sw["discr"]):
                                continue
                            dp = sw["discr"]["p"]
                            if dp["l"] == dl and any(e["k"] == "downcast" and e.get("variant") == "Some" for e in dp["pr"]):
                                zero = [x for v, x in sw["targets"] if v == 0]
                                if zero:
                                    r = hb.reachable_from(zero[0])
                                    if any(s2["k"] == "assign" and s2["p"]["l"] == 0 and s2["rv"]["k"] == "aggregate" and s2["rv"].get("variant") in ("Err", "None") for x in r for s2 in hb.blocks[x]["stmts"]) and not any(s2["k"] == "assign" and s2["p"]["l"] == 0 and s2["rv"]["k"] == "aggregate" and s2["rv"].get("variant") in ("Ok", "Some") for x in r for s2 in hb.blocks[x]["stmts"]):
                                        thr = c
                        res = (c, thr)
            # `NonZeroUsize::new(budget.get() - 1).ok_or(Err)`: the type keeps the budget >= 1, the subtraction cannot
            # underflow, and `new` refuses a result of 0: budgets <= 1 are refused, 1 is taken off
            if res is None and "NonZero" in hb.local_ty(1):
                subs2 = [(bi, s_) for bi in sorted(hb.reach()) for s_ in hb.blocks[bi]["stmts"] if s_["k"] == "assign" and s_["rv"]["k"] == "binop" and s_["rv"]["op"] in ("Sub", "SubWithOverflow", "SubUnchecked")]
                calls_ = [(fn_of(t) or {}).get("def", "") for _, t in hb.calls()]
                if len(subs2) == 1 and const_value(subs2[0][1]["rv"]["b"]) == 1 and sorted(set(calls_)) == sorted({"std::num::NonZero::<T>::get", "std::num::NonZero::<T>::new", "std::option::Option::<T>::ok_or"}):
                    gt = trace(hb, subs2[0][1]["rv"]["a"])
                    got = bool(gt.origin and gt.origin[0] == "call" and (fn_of(gt.origin[2]) or {}).get("def") == "std::num::NonZero::<T>::get" and trace(hb, gt.origin[2]["args"][0]).origin == ("arg", 1))
                    rdefs = hb.whole_defs(0)
                    fin = len(rdefs) == 1 and rdefs[0][2] == "call" and (fn_of(rdefs[0][3]) or {}).get("def") == "std::option::Option::<T>::ok_or"
                    if got and fin:
                        nt = trace(hb, rdefs[0][3]["args"][0])
                        if nt.origin and nt.origin[0] == "call" and (fn_of(nt.origin[2]) or {}).get("def") == "std::num::NonZero::<T>::new":
                            st_ = trace(hb, nt.origin[2]["args"][0])
                            if st_.origin and st_.origin[0] == "rvalue" and st_.origin[1] is subs2[0][1]:
                                res = (1, 1)
    except Exception:
        res = None
    _DEC_HELPERS[key] = res
    return res


def _helper_call_on_param(lib, body, op, param):
    """`op` is what is left after `helper(own budget)`: the Ok / Some payload (through `?`, `match`, `let .. else`) of a
    call of a checked-decrement helper whose argument is the body's parameter `param`. Returns (c, thr, bb, term)."""
    tr = trace(body, op, passthrough_extra=("std::ops::Try::branch",))
    if not (tr.origin and tr.origin[0] == "call" and any(x[0] == "downcast" and x[1] in ("Continue", "Ok", "Some") for x in tr.steps)):
        return None
    t = tr.origin[2]
    f = fn_of(t) or {}
    hb = lib.by_id.get(f.get("resolved") or f.get("def")) if f.get("local") else None
    dh = _dec_helper(lib, hb)
    if dh is None or not t["args"]:
        return None
    at = trace(body, t["args"][0])
    if at.origin and at.origin[0] == "arg" and at.origin[1] == param and all(x[0] == "use" for x in at.steps):
        return dh[0], dh[1], tr.origin[1], t
    return None


def _delta_s(sup, node, body, op, param):
    """`_delta` for a call site that may sit in a closure of the function: the operand is followed through the
    closure's captured variables to the function's own parameter."""
    if node is None:
        return None
    if not node[0]:
        return _delta(body, op, param)
    from model import strace

    plain = ("use", "enter_caller", "deref", "ref", "field", "agg_field", "copyforderef")

    def is_param(tr):
        return bool(tr.origin and tr.origin[0] == "arg" and tr.origin[1] == param and not tr.origin_node[0] and all(s_[0] in plain for s_ in tr.steps))

    tr = strace(sup, node, op)
    if is_param(tr):
        return 0
    if tr.origin and tr.origin[0] == "rvalue" and all(s_[0] in plain for s_ in tr.steps):
        rv = tr.origin[1]["rv"]
        if rv["k"] == "binop" and rv["op"] in ("Sub", "SubWithOverflow", "SubUnchecked"):
            c = const_value(rv["b"])
            if isinstance(c, int) and c >= 0 and is_param(strace(sup, tr.origin_node, rv["a"])):
                return c
    return None


def _delta(body, op, param):
    """If operand = param - c (c >= 0 constant, possibly 0), return c; else None."""
    tr = trace(body, op)
    if tr.origin and tr.origin[0] == "arg" and tr.origin[1] == param and all(s[0] == "use" for s in tr.steps):
        return 0
    # `move _31.0` where _31 = SubWithOverflow(copy p, const c)
    if tr.origin and tr.origin[0] == "rvalue":
        rv = tr.origin[1]["rv"]
        if rv["k"] == "binop" and rv["op"] in ("Sub", "SubWithOverflow", "SubUnchecked"):
            a = trace(body, rv["a"])
            c = const_value(rv["b"])
            if a.origin and a.origin[0] == "arg" and a.origin[1] == param and isinstance(c, int) and c >= 0:
                return c
        if rv["k"] == "binop" and rv["op"].startswith("Add"):
            return None
    hc = _helper_call_on_param(body.crate, body, op, param)
    if hc is not None:
        return hc[0]
    if tr.origin and tr.origin[0] == "call":
        f = fn_of(tr.origin[2]) or {}
        if f.get("name") in ("saturating_sub", "wrapping_sub") and len(tr.origin[2]["args"]) == 2:
            a = trace(body, tr.origin[2]["args"][0])
            c = const_value(tr.origin[2]["args"][1])
            if a.origin and a.origin[0] == "arg" and a.origin[1] == param and isinstance(c, int) and c >= 0:
                return c
        # `let Some(rest) = budget.checked_sub(c) else { return Err(..) }` / `.checked_sub(c).ok_or(..)?`
        if f.get("name") == "checked_sub" and len(tr.origin[2]["args"]) == 2 and any(s[0] == "downcast" and s[1] in ("Some", "Ok", "Continue") for s in tr.steps):
            a = trace(body, tr.origin[2]["args"][0])
            c = const_value(tr.origin[2]["args"][1])
            if a.origin and a.origin[0] == "arg" and a.origin[1] == param and isinstance(c, int) and c >= 0:
                return c
    return None


_CHECKED_VIEWS = ("std::option::Option::<T>::ok_or", "std::option::Option::<T>::ok_or_else", "std::ops::Try::branch")


def _is_checked_delta(body, op, param):
    """The operand is `param.checked_sub(c)`'s payload: a subtraction that cannot underflow by construction."""
    tr = trace(body, op, passthrough_extra=_CHECKED_VIEWS)
    return bool(tr.origin and tr.origin[0] == "call" and (fn_of(tr.origin[2]) or {}).get("name") in ("checked_sub", "saturating_sub"))


def _raw_budget_tests(lib, comp):
    """Tests of a usize parameter against a small constant, anywhere in the functions of a recursive component, whose
    'exhausted' side returns Err without recursing: [{fid, bb, param, thr, op, c, live: (src, dst), ok}] — the budget is
    known to exceed `thr` on the live edge. Forms: `p == c` / `p <= c` / `p < c` (and their negations), and
    `p.checked_sub(c)` with the None side returning."""
    out = []
    for fid in comp:
        b = lib.by_id[fid]

        def exhausted_ok(dst):
            r = b.reachable_from(dst)
            rec = [x for x in r if b.blocks[x]["term"]["k"] == "call" and ((fn_of(b.blocks[x]["term"]) or {}).get("def") in comp or (fn_of(b.blocks[x]["term"]) or {}).get("resolved") in comp)]
            errs = any(s2["k"] == "assign" and s2["p"]["l"] == 0 and s2["rv"]["k"] == "aggregate" and s2["rv"].get("variant") == "Err" for x in r for s2 in b.blocks[x]["stmts"])
            # (the Break arm of `?` returns the error through from_residual)
            errs = errs or any(b.blocks[x]["term"]["k"] == "call" and (fn_of(b.blocks[x]["term"]) or {}).get("def") == "std::ops::FromResidual::from_residual" and not b.blocks[x]["term"]["dest"]["pr"] and b.blocks[x]["term"]["dest"]["l"] == 0 for x in r)
            return not rec and errs

        # `let inner = enter(budget)?` / `budget.descend()?`: the helper's refusal is a test of the budget, its Ok edge
        # the live one
        for hb_, ht_ in b.calls():
            hf_ = fn_of(ht_) or {}
            hbody = lib.by_id.get(hf_.get("resolved") or hf_.get("def")) if hf_.get("local") else None
            dh = _dec_helper(lib, hbody)
            if dh is None or not ht_["args"]:
                continue
            at = trace(b, ht_["args"][0])
            if not (at.origin and at.origin[0] == "arg" and all(x[0] == "use" for x in at.steps)):
                continue
            # the switch that tells Ok from Err: on the helper's result, directly or through `?`
            res_l = ht_["dest"]["l"]
            carriers_ = {res_l}
            for cb2, ct2 in b.calls():
                if (fn_of(ct2) or {}).get("def") == "std::ops::Try::branch" and ct2["args"] and is_place(ct2["args"][0]) and ct2["args"][0]["p"]["l"] in carriers_:
                    carriers_.add(ct2["dest"]["l"])
            for bi in sorted(b.reach()):
                sw = b.blocks[bi]["term"]
                if sw["k"] != "switch":
                    continue
                for s_ in b.blocks[bi]["stmts"]:
                    if s_["k"] == "assign" and s_["rv"]["k"] == "discr" and not s_["rv"]["p"]["pr"] and s_["rv"]["p"]["l"] in carriers_ and is_place(sw["discr"]) and sw["discr"]["p"]["l"] == s_["p"]["l"]:
                        ty_ = b.local_ty(s_["rv"]["p"]["l"])
                        # Continue / Ok / Some carry on; ControlFlow: Continue = 0, Result: Ok = 0, Option: Some = 1
                        live_idx = 1 if ty_.startswith("std::option::Option<") else 0
                        live_t = [x for v, x in sw["targets"] if v == live_idx]
                        live_t = live_t[0] if live_t else (sw["otherwise"] if live_idx not in [v for v, _ in sw["targets"]] else None)
                        dead = [x for v, x in sw["targets"] if v != live_idx] + ([sw["otherwise"]] if live_idx in [v for v, _ in sw["targets"]] else [])
                        dead = [x for x in dead if b.blocks[x]["term"]["k"] != "unreachable"]
                        if live_t is not None and dead:
                            out.append({"fid": fid, "bb": bi, "param": at.origin[1], "thr": dh[1], "op": "Le", "c": dh[1], "live": (bi, live_t), "ok": all(exhausted_ok(x) for x in dead)})
        for bi in sorted(b.reach()):
            blk = b.blocks[bi]
            sw = blk["term"]
            if sw["k"] != "switch" or not is_place(sw["discr"]) or sw["discr"]["p"]["pr"]:
                continue
            dl = sw["discr"]["p"]["l"]
            zero = [x for v, x in sw["targets"] if v == 0]
            for st in blk["stmts"]:
                if not (st["k"] == "assign" and not st["p"]["pr"] and st["p"]["l"] == dl):
                    continue
                rv = st["rv"]
                if rv["k"] == "binop" and rv["op"] in ("Eq", "Ne", "Lt", "Le", "Gt", "Ge") and zero:
                    a = trace(b, rv["a"])
                    c = const_value(rv["b"])
                    if not (a.origin and a.origin[0] == "arg" and all(x[0] == "use" for x in a.steps) and isinstance(c, int) and not isinstance(c, bool) and b.local_ty(a.origin[1]) == "usize"):
                        continue
                    t_edge, f_edge = (bi, sw["otherwise"]), (bi, zero[0])
                    # which side is "budget small"
                    if rv["op"] in ("Eq", "Le", "Lt"):
                        exh, live = t_edge, f_edge
                        thr = {"Eq": c, "Le": c, "Lt": c - 1}[rv["op"]]
                        op = rv["op"]
                    else:
                        exh, live = f_edge, t_edge
                        thr = {"Ne": c, "Gt": c, "Ge": c - 1}[rv["op"]]
                        op = {"Ne": "Eq", "Gt": "Le", "Ge": "Lt"}[rv["op"]]
                    out.append({"fid": fid, "bb": bi, "param": a.origin[1], "thr": thr, "op": op, "c": c, "live": live, "ok": exhausted_ok(exh[1])})
                elif rv["k"] == "discr" and not rv["p"]["pr"]:
                    # discriminant of `p.checked_sub(c)`: Some = enough budget left
                    ds = b.whole_defs(rv["p"]["l"])
                    if len(ds) == 1 and ds[0][2] == "call" and (fn_of(ds[0][3]) or {}).get("name") == "checked_sub" and len(ds[0][3]["args"]) == 2:
                        a = trace(b, ds[0][3]["args"][0])
                        c = const_value(ds[0][3]["args"][1])
                        if a.origin and a.origin[0] == "arg" and all(x[0] == "use" for x in a.steps) and isinstance(c, int) and c >= 1 and b.local_ty(a.origin[1]) == "usize":
                            some = [x for v, x in sw["targets"] if v == 1]
                            none = zero[0] if zero else (sw["otherwise"] if some else None)
                            some_t = some[0] if some else sw["otherwise"]
                            if none is not None and some_t != none:
                                out.append({"fid": fid, "bb": bi, "param": a.origin[1], "thr": c - 1, "op": "Lt", "c": c, "live": (bi, some_t), "ok": exhausted_ok(none)})
    return out


def _site_block(n_):
    """Block of the root function in which a (possibly closure-nested) call site of `_family_calls` sits."""
    return n_[1] if not n_[0] else n_[0][0][1]


_underflow_seen = {}


def _nth_site(d, k):
    d[k] = d.get(k, -1) + 1
    return d[k]


@rule("R18.3", 4, "size calculator: budget strictly decreases around every recursive cycle, is tested before recursing, and never rejects above rmp's level", ["C18", "C04"])
def r18_3(ctx):
    lib = ctx.lib
    sccs, graph = _sccs(lib)
    ctx.ob("recursive-components", len(sccs) >= 1, "lib", f"recursive components: {[[x.rsplit('::', 1)[-1] for x in c] for c in sccs]}")
    for comp in sccs:
        name = "+".join(x.rsplit("::", 1)[-1] for x in comp)
        bp = _budget_param(lib, comp)
        ok_bp = set(bp) == set(comp)
        ctx.ob(f"{name}:budget-parameter", ok_bp, comp[0], f"budget parameter per function: { {k.rsplit('::', 1)[-1]: v for k, v in bp.items()} }" if ok_bp else "recursive component has no budget parameter threaded through all its functions (unbounded recursion)")
        if not ok_bp:
            continue
        # the tests: a test whose live edge dominates every recursive call of its function is that function's entry
        # test; a test that guards single call sites (`if budget <= 1 { return Err } .. recurse(budget - 1)`) is turned
        # into an entry test of the callee (budget' <= thr - delta) when every call into that callee is guarded alike
        raw = [t_ for t_ in _raw_budget_tests(lib, comp) if t_["param"] == bp[t_["fid"]]]
        sites = {}
        for fid in comp:
            sup_, fcalls = _family_calls(lib, fid)
            for n_, b_, t_ in fcalls:
                f_ = fn_of(t_) or {}
                r_ = f_.get("resolved") if f_.get("resolved") in comp else f_.get("def")
                if r_ in comp and n_ is not None:
                    sites.setdefault(fid, []).append((n_, b_, t_, r_))
        tests = []
        site_guard = {}
        for t_ in raw:
            fid = t_["fid"]
            fb = lib.by_id[fid]
            without = fb.reachable_from(0, removed_edges=[t_["live"]])
            guarded = [x for x in sites.get(fid, []) if _site_block(x[0]) not in without]
            if guarded and len(guarded) == len(sites.get(fid, [])):
                tests.append((fid, t_["op"], t_["c"], t_["thr"], t_["ok"]))
            if t_["ok"]:
                for x in guarded:
                    site_guard[(fid, id(x[2]))] = max(site_guard.get((fid, id(x[2])), -1), t_["thr"])
        have_entry = {t[0] for t in tests}
        for g in comp:
            if g in have_entry:
                continue
            inc = [(fid, x) for fid, xs in sites.items() for x in xs if x[3] == g]
            vals = set()
            for fid, x in inc:
                thr_s = site_guard.get((fid, id(x[2])))
                sup_, _ = _family_calls(lib, fid)
                d_ = _delta_s(sup_, x[0], x[1], x[2]["args"][bp[g] - 1], bp[fid])
                if thr_s is None or d_ is None:
                    vals = None
                    break
                vals.add(thr_s - d_)
            if vals and len(vals) == 1 and min(vals) >= 0:
                thr_v = vals.pop()
                tests.append((g, "Le", thr_v, thr_v, True))
        ok_t = len(tests) >= 1 and all(t[4] for t in tests)
        ctx.ob(f"{name}:budget-tested-at-entry", ok_t, comp[0], f"tests: {[(t[0].rsplit('::', 1)[-1], t[1], t[2]) for t in tests]}" if ok_t else "no function of the recursive component refuses an exhausted budget before recursing")
        if not ok_t:
            continue
        tested = {t[0] for t in tests}
        # edge deltas
        edges = {}
        bad_edges = []
        for fid in comp:
            sup_, fcalls = _family_calls(lib, fid)
            for n_, b, t in fcalls:
                f = fn_of(t) or {}
                r = f.get("resolved") if f.get("resolved") in comp else f.get("def")
                if r not in comp:
                    continue
                d = _delta_s(sup_, n_, b, t["args"][bp[r] - 1], bp[fid])
                if d is None:
                    bad_edges.append((fid, r, n_))
                else:
                    edges.setdefault((fid, r), []).append(d)
        ctx.ob(f"{name}:budget-derived-from-own-budget", not bad_edges, comp[0],
               "every recursive call passes (own budget - constant)" if not bad_edges else f"a recursive call passes a budget that is not derived from the caller's: {[(a.rsplit('::', 1)[-1], b_.rsplit('::', 1)[-1]) for a, b_, _ in bad_edges]} (reset / unrelated value)")
        if bad_edges:
            continue
        # a plain `budget - d` must not underflow: the least budget a function can hold (from its own entry test, or
        # from what every caller guarantees) covers the constant it subtracts at each recursive call
        entry_lb = {}
        for t in tests:
            if t[4] and (t[1] in ("Le", "Lt") or (t[1] == "Eq" and t[2] == 0)):
                entry_lb[t[0]] = max(entry_lb.get(t[0], 0), t[3] + 1)
        lb = {fid: entry_lb.get(fid, 0) for fid in comp}
        for _ in range(8):
            changed = False
            for g in comp:
                inc = [(fid, x) for fid, xs in sites.items() for x in xs if x[3] == g]
                if not inc:
                    continue
                vals = []
                for fid, x in inc:
                    sup_, _ = _family_calls(lib, fid)
                    d_ = _delta_s(sup_, x[0], x[1], x[2]["args"][bp[g] - 1], bp[fid]) or 0
                    vals.append(max(lb[fid], site_guard.get((fid, id(x[2])), -1) + 1) - d_)
                new_lb = max(entry_lb.get(g, 0), min(vals), 0)
                # (calls from outside the component pass the full initial budget, far above these small bounds)
                if new_lb > lb[g]:
                    lb[g] = new_lb
                    changed = True
            if not changed:
                break
        for fid, xs in sorted(sites.items()):
            for x in xs:
                sup_, _ = _family_calls(lib, fid)
                d_ = _delta_s(sup_, x[0], x[1], x[2]["args"][bp[x[3]] - 1], bp[fid])
                if not d_ or _is_checked_delta(x[1], x[2]["args"][bp[x[3]] - 1], bp[fid]):
                    continue
                have = max(lb[fid], site_guard.get((fid, id(x[2])), -1) + 1)
                ctx.ob(f"{name}:no-underflow:{fid.rsplit('::', 1)[-1]}->{x[3].rsplit('::', 1)[-1]}:{_nth_site(_underflow_seen, (ctx.config, fid, x[3]))}", have >= d_, site(x[1], x[0][1]) if not x[0][0] else comp[0],
                       f"budget is at least {have} here, {d_} is subtracted" if have >= d_ else
                       f"`budget - {d_}` where the budget is only known to be >= {have}: at the depth limit the subtraction underflows (panic in debug builds; in release builds the budget wraps to a huge value and the recursion is unbounded)")
        _underflow_seen.clear()
        # enumerate simple cycles through a tested function
        cyc = []

        def dfs(start, v, path, dsum_min, dsum_max):
            for (a, b_), ds in edges.items():
                if a != v:
                    continue
                mn, mx = dsum_min + min(ds), dsum_max + max(ds)
                if b_ == start:
                    cyc.append((path + [b_], mn, mx))
                elif b_ not in path and len(path) < 8:
                    dfs(start, b_, path + [b_], mn, mx)

        for s0 in sorted(tested):
            dfs(s0, s0, [s0], 0, 0)
        ok_c = bool(cyc) and all(mn >= 1 for _, mn, _ in cyc)
        ctx.ob(f"{name}:strict-decrease-on-every-cycle", ok_c, comp[0], f"cycle decrements (min,max): {[( [x.rsplit('::', 1)[-1] for x in p], mn, mx) for p, mn, mx in cyc]}" if cyc else "no cycle through the tested function")
        if not ok_c:
            continue
        dmax = max(mx for _, _, mx in cyc)
        dmin = min(mn for _, mn, _ in cyc)
        # initial budget from the external call
        k0 = None
        ext = set()
        adjustable = []
        for b in lib.bodies:
            if _root_of(lib, b).id in comp:
                continue
            for bb, t in b.calls():
                f = fn_of(t) or {}
                r = f.get("resolved") if f.get("resolved") in lib.by_id else f.get("def")
                if r in comp:
                    ext.add(r)
                    _, v = _named_const(b, t["args"][bp[r] - 1])
                    if v is None:
                        # an adjustable budget: its built-in default is the documented limit and a caller's choice stays
                        # within it (R18.1 reports the sources); the arithmetic below is done for the default, and the
                        # parser must be given the very same value, whatever it is
                        alts = cfgbound.alternatives(lib, b, t["args"][bp[r] - 1])
                        if cfgbound.is_limit(alts, REQUIRED_DEPTH) and not any(a_[2] for a_ in alts):
                            # the documented constant, handed through a wrapper's parameter or a newtype: nothing adjustable
                            v = REQUIRED_DEPTH
                        elif cfgbound.is_limit(alts, REQUIRED_DEPTH):
                            v = REQUIRED_DEPTH
                            bt = trace(b, t["args"][bp[r] - 1])
                            same = True
                            n_set = 0
                            for sb, st in b.calls():
                                sf = fn_of(st) or {}
                                if sf.get("name") == "set_max_depth" and sf.get("crate") == "rmp_serde":
                                    n_set += 1
                                    stt = trace(b, st["args"][1])
                                    same = same and bool(stt.origin and bt.origin and stt.origin[0] == bt.origin[0] and stt.origin[1] == bt.origin[1] and [x for x in stt.steps if x[0] != "use"] == [x for x in bt.steps if x[0] != "use"])
                            adjustable.append((b, bb, same and n_set >= 1))
                    k0 = v if k0 is None else min(k0, v) if isinstance(v, int) else k0
        # levels are counted from the function the outside world calls with the full budget: the (real or derived)
        # entry test of that function is the one whose threshold says at which nesting depth a value is refused
        at_entry = sorted([t for t in tests if t[0] in ext], key=lambda t: -t[3])
        op, c, thr = (at_entry[0] if at_entry else tests[0])[1:4]
        if not isinstance(k0, int):
            ctx.ob(f"{name}:initial-budget-constant", False, comp[0], "the initial budget is not a compile-time constant")
            continue
        for ab, abb, same in adjustable:
            ctx.ob(f"{name}:adjustable-budget-is-the-parser's-limit:{ab.name}", same, site(ab, abb), "the adjustable budget handed to the calculator is the very value handed to rmp_serde's set_max_depth in this function" if same else "the calculator's adjustable budget and rmp_serde's set_max_depth limit are different values: slice and reader input can be judged by different limits")
        # value with n enclosing collections has budget k0 - n*d; the test fires when budget <= thr (Lt/Le) or == thr (Eq)
        if op == "Eq":
            fires_ok = (k0 - thr) % dmax == 0 and dmin == dmax
            c_fire = (k0 - thr) // dmax if dmax else None
        else:
            fires_ok = True
            c_fire = -(-(k0 - thr) // dmax)
        ctx.ob(f"{name}:test-cannot-be-stepped-over", fires_ok, comp[0], f"budget {k0} decreases by {dmax} per level and is tested with `{op} {c}`: fires at {c_fire} enclosing collections" if fires_ok else f"budget {k0} decreasing by {dmin}..{dmax} can step over the `== {c}` test (unbounded recursion)")
        # rmp rejects the collection that has (K_rmp - 1) enclosing collections: every value with >= K_rmp enclosing
        # collections is inside a rejected collection, so the calculator may refuse at c_fire >= K_rmp only.
        kvals = []
        for b in lib.bodies:
            for bb, t in b.calls():
                f = fn_of(t) or {}
                if f.get("name") == "set_max_depth" and f.get("crate") == "rmp_serde":
                    _, v = _named_const(b, t["args"][1])
                    if v is None and cfgbound.is_limit(cfgbound.alternatives(lib, b, t["args"][1]), REQUIRED_DEPTH):
                        v = REQUIRED_DEPTH
                    if isinstance(v, int):
                        kvals.append(v)
        krmp = max(kvals) if kvals else REQUIRED_DEPTH
        ok_l = c_fire is not None and c_fire >= krmp
        ctx.ob(f"{name}:never-stricter-than-rmp", ok_l, comp[0],
               f"calculator refuses values under >= {c_fire} collections; rmp (limit {krmp}) already refuses the {krmp}th nested collection, so slice and reader verdicts agree and 1023 levels pass" if ok_l else
               f"calculator refuses values under {c_fire} collections, which rmp (limit {krmp}) accepts: slice input is rejected where reader input translates")


@rule("R18.4", 3, "the other parsers keep their recursion limits (no unbounded_depth / unbounded features, no disable_recursion_limit)", ["C18", "C04"])
def r18_4(ctx):
    g = ctx.facts.buildgraph
    jf = set(g.get("serde_json", {}).get("features", []))
    bad = []
    for crate in (ctx.lib, ctx.bin):
        for b in crate.bodies:
            for bb, t in b.calls():
                if (fn_of(t) or {}).get("name") in ("disable_recursion_limit",):
                    bad.append(site(b, bb))
    # serde_json's `unbounded_depth` feature only adds the `disable_recursion_limit` method (and a flag that starts out
    # false): the feature by itself changes nothing, the call is what removes the limit
    ud = "unbounded_depth" in jf
    ctx.ob("serde_json:no-unbounded_depth", not ud or not bad, "serde_json", f"features {sorted(jf)}" + (" (unbounded_depth is enabled but nothing calls disable_recursion_limit: the limit of 128 stays in force)" if ud and not bad else ""))
    tf = set(g.get("toml_edit", {}).get("features", []))
    ctx.ob("toml_edit:no-unbounded", "unbounded" not in tf, "toml_edit", f"features {sorted(tf)}")
    ctx.ob("no-disable_recursion_limit", not bad, "lib", "no parser has its recursion limit disabled" if not bad else f"recursion limit disabled at {bad}")


@rule("R18.5", 2, "the YAML chunker adds no verdict of its own: every error it yields carries an error polled from libyaml, so the reader path rejects exactly what the parsers reject (no second nesting or size limit in front of serde_yaml)", ["C18", "C10"])
def r18_5(ctx):
    from model import strace, strace_deep
    import r_c03

    lib = ctx.lib
    ch = common.chunker(ctx.facts)
    sup = ch["sup"]
    polls = [(n, t) for n, b_, t in sup.calls() if r_c03._is_parser_poll(lib, b_, t)]
    ctx.need(polls, "parser poll not found in the chunker")
    poll_terms = [t for _, t in polls]

    def from_poll(node, op, depth=0):
        """The operand is the error of a parser poll, possibly wrapped by io::Error::new / a wrapping helper."""
        if depth > 4:
            return False
        tr = strace_deep(sup, node, op, extra=("std::result::Result::<T, E>::map_err",), stop_at=poll_terms)
        if not (tr.origin and tr.origin[0] == "call"):
            # closure parameter of `poll().map_err(|e| ..)`
            body = sup.body_of(node)
            if body.raw["def_kind"] == "Closure" and tr.origin and tr.origin[0] == "arg":
                for pn, pb, pt in sup.calls():
                    pf = fn_of(pt) or {}
                    if body.id in pf.get("closures", []) and pf.get("def") == "std::result::Result::<T, E>::map_err" and pt["args"]:
                        rt = strace(sup, pn, pt["args"][0])
                        if rt.origin and rt.origin[0] == "call" and any(rt.origin[2] is x for x in poll_terms):
                            return True
            return False
        ct = tr.origin[2]
        if any(ct is x for x in poll_terms):
            return True
        cf = fn_of(ct) or {}
        onode = (tr.origin_node[0], tr.origin[1])
        if cf.get("def", "").startswith("std::io::Error::new") and len(ct["args"]) == 2:
            return from_poll(onode, ct["args"][1], depth + 1)
        if cf.get("name") in ("into", "from") and ct["args"]:
            return from_poll(onode, ct["args"][0], depth + 1)
        return False

    n = 0
    seen = set()
    for node in sorted(sup.nodes(), key=str):
        body = sup.body_of(node)
        if body.file != ch["loop"].file or (body.id, node[1]) in seen:
            continue
        seen.add((body.id, node[1]))
        for s_ in body.blocks[node[1]]["stmts"]:
            if s_["k"] == "assign" and s_["rv"]["k"] == "aggregate" and s_["rv"].get("variant") == "Err" and "std::io::Error" in s_["p"].get("ty", "") and s_["rv"]["ops"]:
                n += 1
                ok = from_poll(node, s_["rv"]["ops"][0])
                ctx.ob(f"error-from-parser:{body.name}", ok, sup.site(node), "the error yielded is the parser poll's error (wrapped)" if ok else "the chunker yields an error of its own making: input the parsers accept is rejected on the reader path only")
        # `poll().map_err(wrap)?`: the residual handed on is the poll's own result
        t = body.blocks[node[1]]["term"]
        res_ty = body.local_ty(t["args"][0]["p"]["l"]) if t["k"] == "call" and t.get("args") and is_place(t["args"][0]) and not t["args"][0]["p"]["pr"] else ""
        if t["k"] == "call" and (fn_of(t) or {}).get("def") == "std::ops::FromResidual::from_residual" and t["args"] and "std::io::Error" in body.local_ty(t["dest"]["l"]) and not res_ty.startswith("std::option::Option<std::convert::Infallible"):
            # (a `?` on an Option only hands on "nothing yet", not an error)
            n += 1
            tr = strace(sup, node, t["args"][0], extra=("std::ops::Try::branch", "std::result::Result::<T, E>::map_err", "std::result::Result::<T, E>::or_else"))
            ok = bool(tr.origin and tr.origin[0] == "call" and any(tr.origin[2] is x for x in poll_terms))
            ctx.ob(f"error-from-parser:{body.name}:?", ok, sup.site(node), "`?` hands on the parser poll's own error" if ok else "`?` propagates an error that is not the parser poll's: the chunker rejects input on its own")
    ctx.ob("chunker-error-sites", n >= 1, site(ch["loop"]), f"{n} Err(..) construction(s) in the chunker")
