"""Per-property metadata used in evidence files (what the static rules decide and what they do not)."""

DEPS = (
    "dependency contracts confirmed by reading the locked versions under ~/.cargo/registry/src: serde 1.0.196, "
    "serde_json 1.0.138, rmp 0.8.12, rmp-serde 1.1.2, serde_yaml 0.9.34, toml 0.8.20, toml_edit 0.22.24, unsafe-libyaml 0.2.11"
)
COMMON_TB = [
    "rustc nightly 1.97 type checking, MIR construction (mir-opt-level=0) and Instance resolution",
    "xtfacts driver (engine/xtfacts) faithfully serialises MIR/HIR facts",
    DEPS,
]
COMMON_ASSUME = [
    "analysis covers the unix configuration of the lib and bin targets (non-test code); cfg(not(unix)) code, fuzz/ and benches/ are not analysed",
    "bodies of dependency functions are not analysed; their contracts are trusted as listed",
]


def m(explanation, not_decided, trusted=(), assume=()):
    return {
        "explanation": explanation,
        "not_decided": not_decided,
        "trusted_base": COMMON_TB + list(trusted),
        "assumptions": COMMON_ASSUME + list(assume),
    }


META = {
    "C01": m(
        "Static rules over the type-checked program: the scalar forwarding tables of the streaming visitor and of the "
        "borrowed Value (visit_T -> serialize_T with the uncast payload), exhaustiveness of the overridden Visitor methods, "
        "absence of reordering containers in the streaming transcoder, element/key/value seed pairing, and the resolved crate "
        "feature set (toml/preserve_order, serde_json/float_roundtrip, no arbitrary_precision). These are necessary structural "
        "conditions of value fidelity; the parsers' and printers' own correctness is not decided.",
        "anything inside the third-party parsers/printers (escapes, quoting, number formatting, TOML reordering)",
    ),
    "C02": m(
        "Two structural clauses: (R02.1) the YAML whole-text fast path must be gated by the encoding detector; (R02.2) "
        "slice-arm / reader-arm sibling cross-check of each format entry point on a fixed attribute list (Output method, "
        "parser limits, document driver). Known divergences are listed in known_findings.txt; any new disagreement is a violation.",
        "equality of outputs for all inputs and all short-read schedules; prefix-comparability of partial outputs",
    ),
    "C03": m(
        "Framing obligations on every success path of each format's output entry points (JSON newline after, YAML '---\\n' "
        "before, MessagePack no direct write), one sink per translator, translator created outside the CLI input loop, no "
        "dropping/reordering adaptor in document and input loops, every document of a driver loop forwarded.",
        "that the chunker cuts YAML text at the right offsets; each parser's notion of 'next document'",
    ),
    "C04": m(
        "Complete inventory of panic-capable MIR edges (Assert terminators, calls to panicking library entry points) "
        "against a reviewed table with re-verified local guards; recursion only with a decreasing budget.",
        "panics inside dependencies, loop termination inside third-party parsers, actual stack use",
    ),
    "C05": m(
        "Who-may-slurp rule (read_to_end & co. only in the TOML path or on a bounded Take), capture wrapper never handed to "
        "the translator, constant detection look-ahead, streaming trials before the buffering TOML trial, no loop in a trial.",
        "the k+2 lag bound and heap proportionality (run-time quantities)",
    ),
    "C06": m(
        "Single clause: xt's JSON float output re-parses exactly iff serde_json is built with float_roundtrip (resolved "
        "feature graph cross-checked against the type-checked program).",
        "fixed-point and A->B->A equalities for all documents (behaviour of third-party reader/writer pairs)",
    ),
    "C07": m(
        "Slice path consults encoding detection; Encoding::detect's pattern table is compared, as data, with the YAML 1.2.2 "
        "section 5.2 table over all byte-class prefixes; interval proof that both from_u32_unchecked arguments are scalar "
        "values; UTF-32 path uses the checked conversion; BOM stripped only at the start.",
        "equality of outputs for all texts; remainder handling across caller buffer boundaries",
    ),
    "C08": m(
        "Structure of the TOML output type, on every path of both entry points (interprocedural, path-sensitive over Result "
        "variants): the one-shot guard dominates every write and every consumption of input and is never re-armed; every "
        "write is dominated by the Value::Table edge and writes the bytes of toml::to_string* applied to that table; exactly "
        "one write_all, not on a cycle, after every fallible conversion; the table derives from the current input.",
        "validity of the text emitted by the toml crate; 'reads back as the input value'",
        trusted=["toml::Value's Deserialize/Serialize reject nulls and out-of-range integers; to_string_pretty emits valid TOML"],
    ),
    "C09": m(
        "Rewind typestate of the capture reader (reachable only through rewinding accessors), one fresh borrow per trial, "
        "detection error discipline (which parser errors may become hard errors), prefix-then-source chain order, the "
        "documented 'unable to detect' error.",
        "byte-identical outcomes of detected vs explicit runs; capture reader index arithmetic under arbitrary partial reads",
    ),
    "C10": m(
        "Partial order of trials (JSON before YAML, MessagePack before YAML), MessagePack collection-marker table equals "
        "rmp::Marker's collection variants, YAML collection test table, YAML output framing '---\\n'.",
        "that every collection-rooted output is accepted by its own trial for all documents (third-party emitter choices)",
    ),
    "C11": m(
        "State invariant (source==Ser implies error captured) by a field-write rule; every synthetic 'translation failed' "
        "deserializer error is created under a capture with constant source Ser; the top-level mapping and Display keep the "
        "serializer's reason; child state merged on element failure.",
        "wording of third-party messages; TOML-target messages",
    ),
    "C12": m(
        "No fallible result is discarded (enumerated reviewed exceptions); the stashed libyaml read error is what next_event "
        "returns; flush reaches the writer through every layer; the capture reader never marks EOF on an error edge.",
        "prefix property of bytes accepted before a fault; third-party parsers' per-offset behaviour",
    ),
    "C13": m(
        "Exit-code map of every process::exit site; each failure arm diverges to exit(1) after an 'xt error' line on stderr; "
        "the exit(2) arm writes only to stderr and precedes translation; stdout who-may-call; terminal guard; format-name "
        "table equals the manual; duplicate-option guards.",
        "is_terminal's OS result; lexopt's own parsing; message wording beyond fixed prefixes",
    ),
    "C14": m(
        "-f before extension (dataflow into all translate_* calls), extension table equals the manual and is lower-cased, "
        "stdin-once guard dominates io::stdin(), mmap failure falls back to the reader, map passed as-is.",
        "OS behaviour of FIFOs/directories; byte equality beyond the structural clauses",
    ),
    "C15": m(
        "Every path from a successful translate_* to the loop back edge, main's return or any exit passes through "
        "Translator::flush whose failure arm exits 1; flush reaches the OS writer through every layer.",
        "kernel-level delivery",
    ),
    "C16": m(
        "Every method of the stdout wrapper returns only through the broken-pipe check of the same inner method; the check "
        "diverges into signal(SIGPIPE, SIG_DFL); raise(SIGPIPE); no stderr use there; StdoutLock occurs only inside the wrapper.",
        "what serializers do between a failing write and return; /dev/full semantics",
    ),
    "C17": m(
        "Complete unsafe-operation inventory; guard dominance for copy_nonoverlapping, *size_read, raw derefs, assume_init; "
        "into_raw/from_raw pairing and delete-before-free order; who-may-deref read_state; interval proof for unchecked chars.",
        "UB inside unsafe-libyaml; leak-freedom of libyaml's own allocations",
    ),
    "C18": m(
        "One depth constant (1024) at all set_max_depth sites and the size calculator; every rmp_serde::Deserializer "
        "construction reaches set_max_depth before use; size-calculator budget recurrence never fires above rmp's level; "
        "recursion-limit features of the other parsers stay on.",
        "exact limits of serde_json/serde_yaml/toml; real stack consumption at depth",
    ),
}
