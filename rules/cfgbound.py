"""Possible values of a configurable integer.

A feature that makes a built-in limit adjustable replaces `LIMIT` at the use site by a value that arrives through
parameters and struct fields: `set_max_depth(depth_limit)` with `depth_limit = max_depth.saturating_add(1)`,
`max_depth` a parameter that one caller fills with a constant and another with the payload of an `Option` field that
a setter writes as `Some(depth.min(MAX))`. `alternatives(lib, body, op)` follows such a value back through the crate
and returns the list of its possible sources, each as `(lo, hi, configurable)`:

  lo, hi         the least and greatest value that source can give (None = unbounded on that side); a constant
                 gives lo == hi
  configurable   "api" when the source is something a caller of the public API chooses (a parameter of a `pub`
                 function, possibly narrowed by min / clamp), "unknown" when the analysis cannot resolve it (then
                 the range is unbounded as well), False for constants

so that a rule can demand: every source made of constants only is exactly the documented limit (the default), and
every configurable source stays within it.

Understood: constants and named constants, copies and integer casts, `+` / `-`, saturating / wrapping / checked add
and sub, `min` / `max` / `clamp`, `Option::unwrap_or`, the payload of an Option (literal `None` contributes nothing),
struct fields (every write to the field in the crate is a source), parameters of functions that are not `pub`
(every call site in the crate is a source), variables with several definitions, and same-crate helpers (every return
value is a source; parameters of the helper are resolved over all its call sites). Anything else is unbounded and
configurable, which fails the obligations built on top. Nothing is executed."""

from model import fn_of, is_place, trace, const_value

UNB = (0, None, "unknown")
API = (0, None, "api")
_CAP = 24


def _callers(lib, fid):
    out = []
    for b in lib.bodies:
        for bb, t in b.calls():
            f = fn_of(t) or {}
            if (f.get("resolved") or f.get("def")) == fid:
                out.append((b, bb, t))
    return out


def _is_pub_api(body):
    return str(body.raw.get("vis", "")) == "Public"


def _field_writes(lib, adt, fname):
    """What is written to field `fname` of struct `adt` anywhere in the crate: [(body, operand | ("agg", rvalue) |
    ("call", terminator) | None)]; None stands for a write the analysis cannot read."""
    out = []
    for b in lib.bodies:
        for blk in b.blocks:
            for s in blk["stmts"]:
                if s["k"] != "assign":
                    continue
                rv = s["rv"]
                if rv["k"] == "aggregate" and rv.get("agg") == "adt" and rv.get("adt") == adt and fname in rv.get("fields", []):
                    out.append((b, rv["ops"][rv["fields"].index(fname)]))
                pr = s["p"]["pr"]
                fi = [i for i, e in enumerate(pr) if e["k"] == "field" and e.get("adt") == adt and e.get("name") == fname]
                if fi:
                    rest = pr[fi[-1] + 1:]
                    if not rest and rv["k"] == "use":
                        out.append((b, rv["op"]))
                    elif not rest and rv["k"] == "aggregate":
                        out.append((b, ("agg", rv)))
                    else:
                        out.append((b, None))
            t = blk["term"]
            if t["k"] == "call" and t.get("dest"):
                pr = t["dest"]["pr"]
                if any(e["k"] == "field" and e.get("adt") == adt and e.get("name") == fname for e in pr):
                    out.append((b, ("call", t)))
    return out


def _norm(alts):
    out = []
    for a in alts:
        if a not in out:
            out.append(a)
    if len(out) > _CAP:
        lo = None if any(a[0] is None for a in out) else min(a[0] for a in out)
        hi = None if any(a[1] is None for a in out) else max(a[1] for a in out)
        return [(lo, hi, "unknown" if any(a[2] == "unknown" for a in out) else ("api" if any(a[2] for a in out) else False))]
    return out


def _binary(xs, ys, fn):
    return _norm([fn(x, y) for x in xs for y in ys])


def _cfg(x, y):
    if "unknown" in (x[2], y[2]):
        return "unknown"
    return x[2] or y[2]


def _add(x, y):
    return (None if x[0] is None or y[0] is None else x[0] + y[0]), (None if x[1] is None or y[1] is None else x[1] + y[1]), _cfg(x, y)


def _sub(x, y):
    # unsigned `x - y` is at most x whatever y is: the upper bound, and who chooses it, come from x alone
    lo = None if x[0] is None or y[1] is None else max(0, x[0] - y[1])
    if y[1] is None:
        lo = 0
    hi = None if x[1] is None else max(0, x[1] - (y[0] or 0))
    return lo, hi, x[2]


def _min(x, y):
    # min(x, y) is at most either side: a side that cannot be resolved does not spoil the bound the other one gives
    if y[2] == "unknown" and y[1] is None and x[1] is not None:
        return 0, x[1], x[2]
    if x[2] == "unknown" and x[1] is None and y[1] is not None:
        return 0, y[1], y[2]
    his = [v for v in (x[1], y[1]) if v is not None]
    return (None if x[0] is None or y[0] is None else min(x[0], y[0])), (min(his) if his else None), _cfg(x, y)


def _max(x, y):
    los = [v for v in (x[0], y[0]) if v is not None]
    return (max(los) if los else None), (None if x[1] is None or y[1] is None else max(x[1], y[1])), _cfg(x, y)


def alternatives(lib, body, op, _depth=0, _seen=None):
    """[] means: no value at all (a literal None, a cycle)."""
    seen = _seen if _seen is not None else set()
    if _depth > 16:
        return [UNB]
    if isinstance(op, tuple) and op and op[0] == "agg":
        return _agg(lib, body, op[1], _depth, seen)
    if isinstance(op, tuple) and op and op[0] == "call":
        return _call(lib, body, op[1], _depth, seen)
    if op is None:
        return [UNB]
    if not is_place(op):
        v = const_value(op)
        if not (isinstance(v, int) and not isinstance(v, bool)):
            v = op.get("v")
        if isinstance(v, int) and not isinstance(v, bool):
            return [(v, v, False)]
        return [UNB]
    tr = trace(body, op)
    o = tr.origin
    steps = tr.steps
    if not o:
        return [UNB]

    def A(x, b=body):
        return alternatives(lib, b, x, _depth + 1, seen)

    if o[0] == "const":
        v = o[1].get("v")
        if not (isinstance(v, int) and not isinstance(v, bool)):
            v = const_value(o[1])
        if isinstance(v, int) and not isinstance(v, bool) and all(s[0] in ("use", "cast", "field") for s in steps):
            return [(v, v, False)]
        return [UNB]
    if o[0] == "rvalue" and o[1]["rv"]["k"] == "binop":
        rv = o[1]["rv"]
        if rv["op"] in ("Add", "AddWithOverflow", "AddUnchecked"):
            return _binary(A(rv["a"]), A(rv["b"]), _add)
        if rv["op"] in ("Sub", "SubWithOverflow", "SubUnchecked"):
            return _binary(A(rv["a"]), A(rv["b"]), _sub)
        return [UNB]
    if o[0] == "call":
        return _call(lib, body, o[2], _depth, seen)
    if o[0] == "agg":
        return _agg(lib, body, o[1]["rv"], _depth, seen)
    if o[0] == "multi":
        res = []
        for bb, idx, kind, payload in o[2]:
            if kind == "assign" and payload["rv"]["k"] == "use":
                res += A(payload["rv"]["op"])
            elif kind == "assign" and payload["rv"]["k"] == "aggregate":
                res += _agg(lib, body, payload["rv"], _depth, seen)
            elif kind == "call":
                res += _call(lib, body, payload, _depth, seen)
            else:
                res.append(UNB)
        return _norm(res)
    if o[0] == "arg":
        fields = [s for s in steps if s[0] == "field"]
        if fields and fields[-1][2]:
            # a field of a struct the function was given (`self.max_depth`, possibly its Some payload)
            name, adt = fields[-1][1], fields[-1][2]
            key = ("field", adt, name)
            if key in seen:
                return []
            ws = _field_writes(lib, adt, name)
            if not ws:
                return [UNB]
            seen.add(key)
            res = []
            for wb, wop in ws:
                res += alternatives(lib, wb, wop, _depth + 1, seen)
            seen.discard(key)
            return _norm(res)
        if fields:
            return [UNB]
        key = ("param", body.id, o[1])
        if key in seen:
            return []
        if _is_pub_api(body):
            return [API]
        if body.raw["def_kind"] == "Closure":
            return [UNB]
        cs = _callers(lib, body.id)
        if not cs:
            return [UNB]
        seen.add(key)
        res = []
        for cb, cbb, ct in cs:
            if o[1] - 1 >= len(ct["args"]):
                res.append(UNB)
            else:
                res += alternatives(lib, cb, ct["args"][o[1] - 1], _depth + 1, seen)
        seen.discard(key)
        return _norm(res)
    return [UNB]


def _agg(lib, body, rv, _depth, seen):
    if rv.get("agg") == "adt" and rv.get("adt") != "std::option::Option" and len(rv.get("ops", [])) == 1:
        # a newtype around the value (`Depth(limit)`)
        a = lib.adts.get(rv.get("adt"))
        if a and a.get("kind") == "struct":
            return alternatives(lib, body, rv["ops"][0], _depth + 1, seen)
    if rv.get("adt") == "std::option::Option":
        if rv.get("variant") == "None":
            return []
        if rv.get("variant") == "Some" and rv["ops"]:
            return alternatives(lib, body, rv["ops"][0], _depth + 1, seen)
    return [UNB]


def _call(lib, body, t, _depth, seen):
    f = fn_of(t) or {}
    d = f.get("def", "")
    name = f.get("name", "")
    args = t["args"]
    std = d.startswith("core::") or d.startswith("std::")

    def A(x):
        return alternatives(lib, body, x, _depth + 1, seen)

    if name == "min" and len(args) == 2 and std:
        return _binary(A(args[0]), A(args[1]), _min)
    if name == "max" and len(args) == 2 and std:
        return _binary(A(args[0]), A(args[1]), _max)
    if name == "clamp" and len(args) == 3 and std:
        return _binary(_binary(A(args[0]), A(args[1]), _max), A(args[2]), _min)
    if name in ("saturating_add", "wrapping_add", "checked_add") and len(args) == 2 and std:
        return _binary(A(args[0]), A(args[1]), _add)
    if name in ("saturating_sub", "checked_sub") and len(args) == 2 and std:
        return _binary(A(args[0]), A(args[1]), _sub)
    if d == "std::option::Option::<T>::unwrap_or" and len(args) == 2:
        return _norm(A(args[0]) + A(args[1]))
    if d == "std::option::Option::<T>::unwrap_or_default" and len(args) == 1:
        return _norm(A(args[0]) + [(0, 0, False)])
    if d in ("std::ops::Try::branch", "std::option::Option::<T>::ok_or", "std::option::Option::<T>::ok_or_else", "std::num::NonZero::<T>::new", "std::num::NonZero::<T>::get") and args:
        # value-preserving on the path that goes on (`NonZeroUsize::new(limit).ok_or(..)?`)
        return A(args[0])
    if d in ("std::convert::From::from", "std::convert::Into::into", "std::clone::Clone::clone", "std::option::Option::<T>::unwrap", "std::option::Option::<T>::expect", "std::option::Option::<T>::copied", "std::option::Option::<T>::cloned",
             "std::convert::TryFrom::try_from", "std::convert::TryInto::try_into", "std::result::Result::<T, E>::unwrap", "std::result::Result::<T, E>::expect") and args:
        return A(args[0])
    if d == "std::result::Result::<T, E>::unwrap_or" and len(args) == 2:
        return _norm(A(args[0]) + A(args[1]))
    cb = lib.by_id.get(f.get("resolved") or f.get("def")) if f.get("local") else None
    if cb is not None and cb.raw["def_kind"] != "Closure":
        key = ("ret", cb.id)
        if key in seen:
            return []
        seen.add(key)
        res = alternatives(lib, cb, {"k": "copy", "p": {"l": 0, "pr": []}}, _depth + 1, seen)
        seen.discard(key)
        return res
    return [UNB]


def describe(alts):
    def one(a):
        rng = str(a[0]) if a[0] == a[1] else f"{a[0] if a[0] is not None else '?'}..={a[1] if a[1] is not None else 'unbounded'}"
        return rng + (" (set through the public API)" if a[2] == "api" else " (unresolved)" if a[2] else "")
    return "[" + ", ".join(one(a) for a in alts) + "]" if alts else "[no value]"


def is_limit(alts, required):
    """Every constants-only source is exactly `required`, every configurable source stays within it, and there is at
    least one source."""
    if not alts or all(a[2] for a in alts):
        return False  # no source at all, or no built-in default to compare with the documented limit
    for lo, hi, cfg in alts:
        if cfg:
            if hi is None or hi > required:
                return False
        elif not (lo == hi == required):
            return False
    return True


def is_default_with_override(alts, lo_req, hi_req):
    """A built-in default that a caller may replace: at least one constants-only source, every constants-only source
    within lo_req..=hi_req, and every other source a value chosen through the public API (never something
    unresolved, which could be data-dependent)."""
    if not alts or all(a[2] for a in alts):
        return False
    for lo, hi, cfg in alts:
        if cfg == "unknown":
            return False
        if not cfg and not (lo is not None and hi is not None and lo_req <= lo and hi <= hi_req):
            return False
    return True
