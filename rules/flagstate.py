"""Two-state flags, whatever their representation: a `bool` field or a field whose type is a crate-local,
fieldless, two-variant enum (`used: bool` / `usage: Usage { Fresh, Spent }`).

The two states are named by role: CLEAR is the state every constructor of the owning struct starts with,
SET is the other one. Rules talk about tests ("the edge taken while the flag is still clear"), writes
("set on every path", "never cleared again") and never about the representation."""
from engine import AnchorLost
from model import fn_of, trace, strace, is_place, const_value, enum_edge

CLEAR, SET = "clear", "set"


class Flag:
    def __init__(self, crate, adt, field, kind, enum=None, clear=None, set_=None):
        self.crate, self.adt, self.field, self.kind, self.enum = crate, adt, field, kind, enum
        self.clear, self.set = clear, set_  # concrete values: False/True or variant names

    def role(self, value):
        if value is None:
            return None
        if value == self.clear:
            return CLEAR
        if value == self.set:
            return SET
        return None

    def __repr__(self):
        return f"<flag {self.adt}.{self.field} {self.kind} clear={self.clear} set={self.set}>"


def _const_state(body, op, flag):
    """Concrete state a (constant) operand denotes, or None."""
    if flag.kind == "bool":
        if op.get("k") == "const" and isinstance(op.get("v"), bool):
            return op["v"]
        tr = trace(body, op)
        if tr.origin and tr.origin[0] == "const" and isinstance(tr.origin[1].get("v"), bool) and all(s[0] in ("use", "ref", "deref") for s in tr.steps):
            return tr.origin[1]["v"]
        return None
    tr = trace(body, op)
    if tr.origin and tr.origin[0] == "agg" and tr.origin[1]["rv"].get("adt") == flag.enum and all(s[0] in ("use", "ref", "deref") for s in tr.steps):
        return tr.origin[1]["rv"].get("variant")
    if tr.origin and tr.origin[0] == "const":
        c = tr.origin[1]
        return c.get("variant") or c.get("ref_variant")
    return None


def flags_of(crate, adt_path):
    """[Flag] for the two-state fields of a struct, with CLEAR/SET resolved from its constructors."""
    a = crate.adts.get(adt_path)
    if not a or a["kind"] != "struct":
        return []
    out = []
    for f in a["variants"][0]["fields"]:
        ty = f["ty"]
        fl = None
        if ty == "bool":
            fl = Flag(crate, adt_path, f["name"], "bool")
            vals = (False, True)
        else:
            e = crate.adts.get(ty)
            if e and e["crate"] == "xt" and e["kind"] == "enum" and len(e["variants"]) == 2 and all(not v["fields"] for v in e["variants"]):
                fl = Flag(crate, adt_path, f["name"], "enum", enum=ty)
                vals = tuple(v["name"] for v in e["variants"])
        if fl is None:
            continue
        inits = set()
        for b in crate.bodies:
            for bi, blk in enumerate(b.blocks):
                for s in blk["stmts"]:
                    if s["k"] == "assign" and s["rv"]["k"] == "aggregate" and s["rv"].get("adt") == adt_path and f["name"] in s["rv"].get("fields", []):
                        op = s["rv"]["ops"][s["rv"]["fields"].index(f["name"])]
                        inits.add(_const_state(b, op, fl))
        if len(inits) == 1 and None not in inits:
            fl.clear = inits.pop()
            fl.set = [v for v in vals if v != fl.clear][0]
            out.append(fl)
    return out


def _is_field_place(p, flag):
    return bool(p["pr"]) and p["pr"][-1]["k"] == "field" and p["pr"][-1]["name"] == flag.field and p["pr"][-1].get("adt") == flag.adt


def _reads_field(body, op, flag, depth=0):
    """The operand is (a copy of / a reference to) the flag field."""
    if not is_place(op) or depth > 6:
        return False
    p = op["p"]
    if _is_field_place(p, flag):
        return True
    if p["pr"] and not all(e["k"] == "deref" for e in p["pr"]):
        return False
    ds = body.whole_defs(p["l"])
    if len(ds) != 1 or ds[0][2] != "assign":
        return False
    rv = ds[0][3]["rv"]
    if rv["k"] == "use":
        return _reads_field(body, rv["op"], flag, depth + 1)
    if rv["k"] in ("ref", "copyforderef"):
        if _is_field_place(rv["p"], flag):
            return True
        if all(e["k"] == "deref" for e in rv["p"]["pr"]):
            return _reads_field(body, {"k": "copy", "p": {"l": rv["p"]["l"], "pr": []}}, flag, depth + 1)
    return False


def tests(sup, flag):
    """[{node, edges: {CLEAR: edge, SET: edge}, how}] — branches on the flag's state anywhere in the
    supergraph; edges are (src_node, label, dst_node). A test through `mem::replace(&mut flag, V)` reports
    the *previous* state and is marked how='replace' with the written role in 'wrote'."""
    out = []
    for n in sorted(sup.nodes(), key=str):
        b = sup.body_of(n)
        blk = b.blocks[n[1]]
        t = blk["term"]
        if t["k"] != "switch":
            continue
        path = n[0]

        def edge(label, dst):
            return (n, label, (path, dst))

        zero = [x for v, x in t["targets"] if v == 0]
        # enum discriminant of the field
        hit = None
        for s in blk["stmts"]:
            if s["k"] == "assign" and s["rv"]["k"] == "discr" and flag.kind == "enum":
                sp = s["rv"]["p"]
                if _is_field_place(sp, flag) or _reads_field(b, {"k": "copy", "p": sp}, flag):
                    hit = "discr"
        if hit == "discr":
            e = b.crate.adts[flag.enum]
            edges = {}
            for v in e["variants"]:
                ee = enum_edge(b, n[1], v["idx"])
                if ee:
                    edges[flag.role(v["name"])] = edge(ee[1], ee[2])
            if CLEAR in edges and SET in edges:
                out.append({"node": n, "edges": edges, "how": "discr"})
            continue
        if t.get("discr_ty") != "bool" or not zero or not is_place(t["discr"]):
            continue
        false_e, true_e = edge(0, zero[0]), edge("otherwise", t["otherwise"])
        # peel copies and negations
        cur = t["discr"]
        neg = False
        origin_call = None
        for _ in range(8):
            if _reads_field(b, cur, flag) and flag.kind == "bool":
                edges = {SET: false_e if neg else true_e, CLEAR: true_e if neg else false_e}
                out.append({"node": n, "edges": edges, "how": "value"})
                break
            if not is_place(cur) or cur["p"]["pr"]:
                break
            ds = b.whole_defs(cur["p"]["l"])
            if len(ds) != 1:
                break
            dbb, _, kind, payload = ds[0]
            if kind == "assign":
                rv = payload["rv"]
                if rv["k"] == "use" and is_place(rv["op"]):
                    cur = rv["op"]
                    continue
                if rv["k"] == "unop" and rv["op"] == "Not":
                    neg = not neg
                    cur = rv["a"]
                    continue
                break
            if kind == "call":
                origin_call = payload
                break
            break
        if origin_call is None:
            continue
        f = fn_of(origin_call) or {}
        d = f.get("def", "")
        if d == "std::mem::replace" and len(origin_call["args"]) == 2 and _reads_field(b, origin_call["args"][0], flag) and flag.kind == "bool":
            wrote = flag.role(_const_state(b, origin_call["args"][1], flag))
            edges = {SET: false_e if neg else true_e, CLEAR: true_e if neg else false_e}
            out.append({"node": n, "edges": edges, "how": "replace", "wrote": wrote})
        elif f.get("trait") == "std::cmp::PartialEq" and f.get("name") in ("eq", "ne") and len(origin_call["args"]) == 2:
            a0, a1 = origin_call["args"]
            lhs_field, rhs_field = _reads_field(b, a0, flag), _reads_field(b, a1, flag)
            other = a1 if lhs_field else (a0 if rhs_field else None)
            old_from_replace = None
            if other is None:
                # comparing the value returned by mem::replace(&mut flag, V)
                for cand, oth in ((a0, a1), (a1, a0)):
                    tr = trace(b, cand)
                    if tr.origin and tr.origin[0] == "call" and (fn_of(tr.origin[2]) or {}).get("def") == "std::mem::replace" and _reads_field(b, tr.origin[2]["args"][0], flag):
                        other = oth
                        old_from_replace = tr.origin[2]
            if other is None:
                continue
            v = _const_state(b, other, flag)
            r = flag.role(v)
            if r is None:
                continue
            holds_true = (f["name"] == "eq") != neg
            same_e, diff_e = (true_e, false_e) if holds_true else (false_e, true_e)
            edges = {r: same_e, (SET if r == CLEAR else CLEAR): diff_e}
            rec = {"node": n, "edges": edges, "how": "eq"}
            if old_from_replace is not None:
                rec["how"] = "replace"
                rec["wrote"] = flag.role(_const_state(b, old_from_replace["args"][1], flag))
            out.append(rec)
    # enum flags read through mem::replace and then matched on
    if flag.kind == "enum":
        for n in sorted(sup.nodes(), key=str):
            b = sup.body_of(n)
            blk = b.blocks[n[1]]
            t = blk["term"]
            if t["k"] != "switch":
                continue
            for s in blk["stmts"]:
                if s["k"] == "assign" and s["rv"]["k"] == "discr" and not s["rv"]["p"]["pr"]:
                    tr = trace(b, {"k": "copy", "p": s["rv"]["p"]})
                    if tr.origin and tr.origin[0] == "call" and (fn_of(tr.origin[2]) or {}).get("def") == "std::mem::replace" and _reads_field(b, tr.origin[2]["args"][0], flag) and all(x[0] == "use" for x in tr.steps):
                        e = b.crate.adts[flag.enum]
                        edges = {}
                        for v in e["variants"]:
                            ee = enum_edge(b, n[1], v["idx"])
                            if ee:
                                edges[flag.role(v["name"])] = (n, ee[1], (n[0], ee[2]))
                        if CLEAR in edges and SET in edges and not any(x["node"] == n for x in out):
                            out.append({"node": n, "edges": edges, "how": "replace", "wrote": flag.role(_const_state(b, tr.origin[2]["args"][1], flag))})
    return out


def writes(crate, flag):
    """[(body, block, role or None, how)] for every store into the flag field outside constructors:
    plain assignments and mem::replace / mem::take through `&mut field`."""
    out = []
    for b in crate.bodies:
        for bi in sorted(b.reach()):
            blk = b.blocks[bi]
            for s in blk["stmts"]:
                if s["k"] == "assign" and _is_field_place(s["p"], flag):
                    rv = s["rv"]
                    role = None
                    if rv["k"] == "use":
                        role = flag.role(_const_state(b, rv["op"], flag))
                    elif rv["k"] == "aggregate" and rv.get("adt") == flag.enum:
                        role = flag.role(rv.get("variant"))
                    out.append((b, bi, role, "assign"))
            t = blk["term"]
            if t["k"] == "call":
                f = fn_of(t) or {}
                if f.get("def") in ("std::mem::replace", "std::mem::take", "std::mem::swap") and t["args"] and _reads_field(b, t["args"][0], flag):
                    role = flag.role(_const_state(b, t["args"][1], flag)) if f["def"] == "std::mem::replace" and len(t["args"]) == 2 else None
                    out.append((b, bi, role, f["def"].rsplit("::", 1)[-1]))
    return out


def mut_borrow_escapes(crate, flag):
    """[(body, block)] where `&mut field` is taken for anything other than mem::replace(_, const)."""
    from model import uses_of_local

    out = []
    for b in crate.bodies:
        for bi, blk in enumerate(b.blocks):
            for s in blk["stmts"]:
                if not (s["k"] == "assign" and s["rv"]["k"] == "ref" and s["rv"].get("mut") and _is_field_place(s["rv"]["p"], flag)):
                    continue
                ok = False
                cur = s["p"]["l"] if not s["p"]["pr"] else None
                for _ in range(4):
                    if cur is None:
                        break
                    us = [(ub, ui, how) for ub, ui, how in uses_of_local(b, cur) if how != "drop"]
                    if len(us) != 1:
                        break
                    ub, ui, how = us[0]
                    if isinstance(how, tuple) and how[0] == "callarg":
                        ct = b.blocks[ub]["term"]
                        ok = (fn_of(ct) or {}).get("def") == "std::mem::replace" and is_place(ct["args"][0]) and ct["args"][0]["p"]["l"] == cur and _const_state(b, ct["args"][1], flag) is not None
                        break
                    if how == "stmt":
                        s2 = b.blocks[ub]["stmts"][ui]
                        rv2 = s2["rv"]
                        reborrow = rv2["k"] == "ref" and rv2["p"]["l"] == cur and [e["k"] for e in rv2["p"]["pr"]] == ["deref"]
                        moved = rv2["k"] == "use" and is_place(rv2["op"]) and rv2["op"]["p"]["l"] == cur and not rv2["op"]["p"]["pr"]
                        if (reborrow or moved) and not s2["p"]["pr"]:
                            cur = s2["p"]["l"]
                            continue
                    break
                if not ok:
                    out.append((b, bi))
    return out
