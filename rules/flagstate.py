"""Two-state flags, whatever their representation: a `bool` field or a field whose type is a crate-local,
fieldless, two-variant enum (`used: bool` / `usage: Usage { Fresh, Spent }`).

The two states are named by role: CLEAR is the state every constructor of the owning struct starts with,
SET is the other one. Rules talk about tests ("the edge taken while the flag is still clear"), writes
("set on every path", "never cleared again") and never about the representation."""
from engine import AnchorLost
from model import fn_of, trace, strace, is_place, const_value, enum_edge

CLEAR, SET = "clear", "set"


class Flag:
    def __init__(self, crate, adt, field, kind, enum=None, clear=None, set_=None):
        self.crate, self.adt, self.field, self.kind, self.enum = crate, adt, field, kind, enum
        self.clear, self.set = clear, set_  # concrete values: False/True or variant names

    def role(self, value):
        if value is None:
            return None
        if value == self.clear:
            return CLEAR
        if value == self.set:
            return SET
        return None

    def __repr__(self):
        return f"<flag {self.adt}.{self.field} {self.kind} clear={self.clear} set={self.set}>"


def _const_state(body, op, flag):
    """Concrete state a (constant) operand denotes, or None."""
    if flag.kind == "bool":
        if op.get("k") == "const" and isinstance(op.get("v"), bool):
            return op["v"]
        tr = trace(body, op)
        if tr.origin and tr.origin[0] == "const" and isinstance(tr.origin[1].get("v"), bool) and all(s[0] in ("use", "ref", "deref") for s in tr.steps):
            return tr.origin[1]["v"]
        return None
    tr = trace(body, op)
    if tr.origin and tr.origin[0] == "agg" and tr.origin[1]["rv"].get("adt") == flag.enum and all(s[0] in ("use", "ref", "deref") for s in tr.steps):
        return tr.origin[1]["rv"].get("variant")
    if tr.origin and tr.origin[0] == "const":
        c = tr.origin[1]
        return c.get("variant") or c.get("ref_variant")
    if tr.origin and tr.origin[0] == "call" and not tr.origin[2]["args"] and all(s[0] in ("use", "ref", "deref") for s in tr.steps):
        # `Slot::default()` / a nullary same-crate constructor: the variant its body returns
        f = fn_of(tr.origin[2]) or {}
        cb = body.crate.by_id.get(f.get("resolved") or f.get("def"))
        if cb is not None and cb.nargs == 0:
            vs = set()
            for _, _, k_, p_ in cb.whole_defs(0):
                if k_ == "assign" and p_["rv"]["k"] == "aggregate" and p_["rv"].get("adt") == flag.enum:
                    vs.add(p_["rv"].get("variant"))
                else:
                    vs.add(None)
            if len(vs) == 1 and None not in vs:
                return vs.pop()
    return None


def flags_of(crate, adt_path):
    """[Flag] for the two-state fields of a struct, with CLEAR/SET resolved from its constructors."""
    a = crate.adts.get(adt_path)
    if not a or a["kind"] != "struct":
        return []
    out = []
    for f in a["variants"][0]["fields"]:
        ty = f["ty"]
        fl = None
        if ty == "bool":
            fl = Flag(crate, adt_path, f["name"], "bool")
            vals = (False, True)
        else:
            e = crate.adts.get(ty)
            if e and e["crate"] == "xt" and e["kind"] == "enum" and len(e["variants"]) == 2 and all(not v["fields"] for v in e["variants"]):
                fl = Flag(crate, adt_path, f["name"], "enum", enum=ty)
                vals = tuple(v["name"] for v in e["variants"])
        if fl is None:
            continue
        inits = set()
        for b in crate.bodies:
            for bi, blk in enumerate(b.blocks):
                for s in blk["stmts"]:
                    if s["k"] == "assign" and s["rv"]["k"] == "aggregate" and s["rv"].get("adt") == adt_path and f["name"] in s["rv"].get("fields", []):
                        op = s["rv"]["ops"][s["rv"]["fields"].index(f["name"])]
                        inits.add(_const_state(b, op, fl))
        if len(inits) == 1 and None not in inits:
            fl.clear = inits.pop()
            fl.set = [v for v in vals if v != fl.clear][0]
            out.append(fl)
    return out


def _is_field_place(p, flag):
    return bool(p["pr"]) and p["pr"][-1]["k"] == "field" and p["pr"][-1]["name"] == flag.field and p["pr"][-1].get("adt") == flag.adt


def _reads_field(body, op, flag, depth=0):
    """The operand is (a copy of / a reference to) the flag field."""
    if not is_place(op) or depth > 6:
        return False
    p = op["p"]
    if _is_field_place(p, flag):
        return True
    if p["pr"] and not all(e["k"] == "deref" for e in p["pr"]):
        return False
    ds = body.whole_defs(p["l"])
    if len(ds) != 1 or ds[0][2] != "assign":
        return False
    rv = ds[0][3]["rv"]
    if rv["k"] == "use":
        return _reads_field(body, rv["op"], flag, depth + 1)
    if rv["k"] in ("ref", "copyforderef"):
        if _is_field_place(rv["p"], flag):
            return True
        if all(e["k"] == "deref" for e in rv["p"]["pr"]):
            return _reads_field(body, {"k": "copy", "p": {"l": rv["p"]["l"], "pr": []}}, flag, depth + 1)
    return False


_SUMM = {}


def method_summary(crate, m, flag):
    """For a same-crate method of the flag's own type that takes `&mut self` and returns bool: {CLEAR: (returned
    bool, final role), SET: (..)} obtained by running its (loop-free) body on both states; None when the body does
    anything this little interpreter does not understand."""
    key = (id(crate), m.id, flag.adt, flag.field)
    if key in _SUMM:
        return _SUMM[key]
    _SUMM[key] = None
    # (the answer may also be a `Result<(), E>`: Ok plays the part of `true`)
    if flag.kind != "enum" or m.nargs != 1 or not (m.local_ty(0) == "bool" or m.local_ty(0).startswith("std::result::Result<(), ")) or not m.local_ty(1).startswith("&mut " + flag.enum):
        return None
    e = crate.adts[flag.enum]
    name_of = {v["idx"]: v["name"] for v in e["variants"]}
    # Default of the enum (what mem::take leaves behind)
    default = None
    for b in crate.bodies:
        if b.raw.get("impl_trait") == "std::default::Default" and b.raw.get("impl_self_adt") == flag.enum and b.name == "default":
            for _, _, k_, p_ in b.whole_defs(0):
                if k_ == "assign" and p_["rv"]["k"] == "aggregate":
                    default = p_["rv"].get("variant")
    out = {}
    for init in (flag.clear, flag.set):
        env = {"*": init}
        bi, steps = 0, 0
        ret = None
        while steps < 64:
            steps += 1
            blk = m.blocks[bi]
            bad = False
            for s_ in blk["stmts"]:
                if s_["k"] != "assign":
                    continue
                p_, rv = s_["p"], s_["rv"]
                to_pointee = p_["l"] == 1 and [x["k"] for x in p_["pr"]] == ["deref"]
                val = None
                if rv["k"] == "aggregate" and rv.get("adt") == flag.enum:
                    val = rv.get("variant")
                elif rv["k"] == "aggregate" and rv.get("variant") in ("Ok", "Err") and not p_["pr"] and p_["l"] == 0:
                    val = rv.get("variant") == "Ok"
                elif rv["k"] == "use" and rv["op"].get("k") == "const":
                    val = rv["op"].get("v") if isinstance(rv["op"].get("v"), bool) else (rv["op"].get("variant") or "?")
                elif rv["k"] == "use" and is_place(rv["op"]):
                    src = rv["op"]["p"]
                    val = env.get("*") if (src["l"] == 1 and [x["k"] for x in src["pr"]] == ["deref"]) else (env.get(src["l"]) if not src["pr"] else "?")
                elif rv["k"] == "discr":
                    src = rv["p"]
                    v0 = env.get("*") if (src["l"] == 1 and [x["k"] for x in src["pr"]] == ["deref"]) else (env.get(src["l"]) if not src["pr"] else None)
                    idx = [i for i, nm in name_of.items() if nm == v0]
                    val = ("discr", idx[0]) if idx else "?"
                elif rv["k"] == "ref":
                    src = rv["p"]
                    if (src["l"] == 1 and [x["k"] for x in src["pr"]] == ["deref"]) or (not src["pr"] and env.get(src["l"]) == "&*"):
                        val = "&*"
                    else:
                        val = "?"
                else:
                    val = "?"
                if to_pointee:
                    if val in name_of.values():
                        env["*"] = val
                    else:
                        bad = True
                elif not p_["pr"]:
                    env[p_["l"]] = val
                else:
                    bad = True
            if bad:
                return None
            t = blk["term"]
            if t["k"] == "return":
                ret = env.get(0)
                break
            if t["k"] == "goto":
                bi = t["target"]
                continue
            if t["k"] == "switch" and is_place(t["discr"]) and not t["discr"]["p"]["pr"]:
                dv = env.get(t["discr"]["p"]["l"])
                if isinstance(dv, tuple) and dv[0] == "discr":
                    tg = [x for v_, x in t["targets"] if v_ == dv[1]]
                    bi = tg[0] if tg else t["otherwise"]
                    continue
                if isinstance(dv, bool):
                    tg = [x for v_, x in t["targets"] if v_ == int(dv)]
                    bi = tg[0] if tg else t["otherwise"]
                    continue
                return None
            if t["k"] == "call" and not t["dest"]["pr"]:
                f = fn_of(t) or {}
                a0 = t["args"][0] if t["args"] else None
                on_pointee = a0 is not None and is_place(a0) and not a0["p"]["pr"] and env.get(a0["p"]["l"]) == "&*"
                if f.get("def") == "std::mem::take" and on_pointee and default is not None:
                    env[t["dest"]["l"]] = env["*"]
                    env["*"] = default
                elif f.get("def") == "std::mem::replace" and on_pointee and len(t["args"]) == 2:
                    nv = _const_state(m, t["args"][1], flag)
                    if nv is None:
                        return None
                    env[t["dest"]["l"]] = env["*"]
                    env["*"] = nv
                else:
                    return None
                bi = t["target"]
                continue
            if t["k"] == "drop":
                bi = t.get("target")
                if bi is None:
                    return None
                continue
            return None
        if not isinstance(ret, bool):
            return None
        out[flag.role(init)] = (ret, flag.role(env["*"]))
    if set(out) != {CLEAR, SET} or out[CLEAR][0] == out[SET][0]:
        return None
    _SUMM[key] = out
    return out


def tests(sup, flag):
    """[{node, edges: {CLEAR: edge, SET: edge}, how}] — branches on the flag's state anywhere in the
    supergraph; edges are (src_node, label, dst_node). A test through `mem::replace(&mut flag, V)` reports
    the *previous* state and is marked how='replace' with the written role in 'wrote'."""
    out = []
    for n in sorted(sup.nodes(), key=str):
        b = sup.body_of(n)
        blk = b.blocks[n[1]]
        t = blk["term"]
        if t["k"] != "switch":
            continue
        path = n[0]

        def edge(label, dst):
            return (n, label, (path, dst))

        zero = [x for v, x in t["targets"] if v == 0]
        # enum discriminant of the field
        hit = None
        for s in blk["stmts"]:
            if s["k"] == "assign" and s["rv"]["k"] == "discr" and flag.kind == "enum":
                sp = s["rv"]["p"]
                if _is_field_place(sp, flag) or _reads_field(b, {"k": "copy", "p": sp}, flag):
                    hit = "discr"
        if hit == "discr":
            e = b.crate.adts[flag.enum]
            edges = {}
            for v in e["variants"]:
                ee = enum_edge(b, n[1], v["idx"])
                if ee:
                    edges[flag.role(v["name"])] = edge(ee[1], ee[2])
            if CLEAR in edges and SET in edges:
                out.append({"node": n, "edges": edges, "how": "discr"})
            continue
        if flag.kind == "enum":
            # `self.slot.claim()?` / `match self.slot.claim() { Ok(()) => .., Err(e) => .. }` with claim() a method of the
            # flag's own type that answers with a Result
            done = False
            for s in blk["stmts"]:
                if not (s["k"] == "assign" and s["rv"]["k"] == "discr" and not s["rv"]["p"]["pr"]):
                    continue
                ds = b.whole_defs(s["rv"]["p"]["l"])
                if len(ds) != 1 or ds[0][2] != "call":
                    continue
                oc = ds[0][3]
                via_try = (fn_of(oc) or {}).get("def") == "std::ops::Try::branch" and oc["args"] and is_place(oc["args"][0]) and not oc["args"][0]["p"]["pr"]
                if via_try:
                    ds2 = b.whole_defs(oc["args"][0]["p"]["l"])
                    if len(ds2) != 1 or ds2[0][2] != "call":
                        continue
                    oc = ds2[0][3]
                f_ = fn_of(oc) or {}
                mcal_ = b.crate.by_id.get(f_.get("resolved") or f_.get("def")) if f_.get("local") else None
                summ_ = method_summary(b.crate, mcal_, flag) if (mcal_ is not None and len(oc["args"]) == 1 and _reads_field(b, oc["args"][0], flag)) else None
                if summ_ is None:
                    continue
                ok_e = enum_edge(b, n[1], 0)   # Ok / Continue
                err_e = enum_edge(b, n[1], 1)  # Err / Break
                if not ok_e or not err_e:
                    continue
                true_e_, false_e_ = edge(ok_e[1], ok_e[2]), edge(err_e[1], err_e[2])
                clear_e, set_e = (true_e_, false_e_) if summ_[CLEAR][0] is True else (false_e_, true_e_)
                finals = {summ_[CLEAR][1], summ_[SET][1]}
                out.append({"node": n, "edges": {CLEAR: clear_e, SET: set_e}, "how": "replace", "wrote": SET if finals == {SET} else (CLEAR if finals == {CLEAR} else None)})
                done = True
            if done:
                continue
        if t.get("discr_ty") != "bool" or not zero or not is_place(t["discr"]):
            continue
        false_e, true_e = edge(0, zero[0]), edge("otherwise", t["otherwise"])
        # peel copies and negations
        cur = t["discr"]
        neg = False
        origin_call = None
        for _ in range(8):
            if _reads_field(b, cur, flag) and flag.kind == "bool":
                edges = {SET: false_e if neg else true_e, CLEAR: true_e if neg else false_e}
                out.append({"node": n, "edges": edges, "how": "value"})
                break
            if not is_place(cur) or cur["p"]["pr"]:
                break
            ds = b.whole_defs(cur["p"]["l"])
            if len(ds) != 1:
                break
            dbb, _, kind, payload = ds[0]
            if kind == "assign":
                rv = payload["rv"]
                if rv["k"] == "use" and is_place(rv["op"]):
                    cur = rv["op"]
                    continue
                if rv["k"] == "unop" and rv["op"] == "Not":
                    neg = not neg
                    cur = rv["a"]
                    continue
                break
            if kind == "call":
                origin_call = payload
                break
            break
        if origin_call is None:
            continue
        f = fn_of(origin_call) or {}
        d = f.get("def", "")
        mcal = b.crate.by_id.get(f.get("resolved") or d) if f.get("local") else None
        summ = method_summary(b.crate, mcal, flag) if (mcal is not None and len(origin_call["args"]) == 1 and _reads_field(b, origin_call["args"][0], flag)) else None
        if summ is not None:
            # `if self.slot.claim() { .. }`: the method reports the previous state and leaves a state behind
            clear_true = summ[CLEAR][0] is True
            clear_e, set_e = (true_e, false_e) if clear_true != neg else (false_e, true_e)
            finals = {summ[CLEAR][1], summ[SET][1]}
            out.append({"node": n, "edges": {CLEAR: clear_e, SET: set_e}, "how": "replace", "wrote": SET if finals == {SET} else (CLEAR if finals == {CLEAR} else None)})
            continue
        if d == "std::mem::replace" and len(origin_call["args"]) == 2 and _reads_field(b, origin_call["args"][0], flag) and flag.kind == "bool":
            wrote = flag.role(_const_state(b, origin_call["args"][1], flag))
            edges = {SET: false_e if neg else true_e, CLEAR: true_e if neg else false_e}
            out.append({"node": n, "edges": edges, "how": "replace", "wrote": wrote})
        elif f.get("trait") == "std::cmp::PartialEq" and f.get("name") in ("eq", "ne") and len(origin_call["args"]) == 2:
            a0, a1 = origin_call["args"]
            lhs_field, rhs_field = _reads_field(b, a0, flag), _reads_field(b, a1, flag)
            other = a1 if lhs_field else (a0 if rhs_field else None)
            old_from_replace = None
            if other is None:
                # comparing the value returned by mem::replace(&mut flag, V)
                for cand, oth in ((a0, a1), (a1, a0)):
                    tr = trace(b, cand)
                    if tr.origin and tr.origin[0] == "call" and (fn_of(tr.origin[2]) or {}).get("def") == "std::mem::replace" and _reads_field(b, tr.origin[2]["args"][0], flag):
                        other = oth
                        old_from_replace = tr.origin[2]
            if other is None:
                continue
            v = _const_state(b, other, flag)
            r = flag.role(v)
            if r is None:
                continue
            holds_true = (f["name"] == "eq") != neg
            same_e, diff_e = (true_e, false_e) if holds_true else (false_e, true_e)
            edges = {r: same_e, (SET if r == CLEAR else CLEAR): diff_e}
            rec = {"node": n, "edges": edges, "how": "eq"}
            if old_from_replace is not None:
                rec["how"] = "replace"
                rec["wrote"] = flag.role(_const_state(b, old_from_replace["args"][1], flag))
            out.append(rec)
    # enum flags read through mem::replace and then matched on
    if flag.kind == "enum":
        for n in sorted(sup.nodes(), key=str):
            b = sup.body_of(n)
            blk = b.blocks[n[1]]
            t = blk["term"]
            if t["k"] != "switch":
                continue
            for s in blk["stmts"]:
                if s["k"] == "assign" and s["rv"]["k"] == "discr" and not s["rv"]["p"]["pr"]:
                    tr = trace(b, {"k": "copy", "p": s["rv"]["p"]})
                    rb = b
                    if tr.origin and tr.origin[0] == "call" and (fn_of(tr.origin[2]) or {}).get("local") and all(x[0] == "use" for x in tr.steps):
                        # `match self.claim() { .. }` with `fn claim(&mut self) -> Usage { mem::replace(&mut self.usage, Spent) }`:
                        # the helper hands back the previous state
                        from model import strace_deep
                        dtr = strace_deep(sup, n, {"k": "copy", "p": s["rv"]["p"]})
                        if dtr.origin and dtr.origin[0] == "call" and (fn_of(dtr.origin[2]) or {}).get("def") == "std::mem::replace" and all(x[0] in ("use", "enter_callee", "enter_caller") for x in dtr.steps):
                            tr = dtr
                            rb = sup.body_of((dtr.origin_node[0], 0))
                            tr.steps = [x for x in tr.steps if x[0] == "use"]
                    if tr.origin and tr.origin[0] == "call" and (fn_of(tr.origin[2]) or {}).get("def") == "std::mem::replace" and _reads_field(rb, tr.origin[2]["args"][0], flag) and all(x[0] == "use" for x in tr.steps):
                        e = b.crate.adts[flag.enum]
                        edges = {}
                        for v in e["variants"]:
                            ee = enum_edge(b, n[1], v["idx"])
                            if ee:
                                edges[flag.role(v["name"])] = (n, ee[1], (n[0], ee[2]))
                        if CLEAR in edges and SET in edges and not any(x["node"] == n for x in out):
                            out.append({"node": n, "edges": edges, "how": "replace", "wrote": flag.role(_const_state(rb, tr.origin[2]["args"][1], flag))})
    return out


def writes(crate, flag):
    """[(body, block, role or None, how)] for every store into the flag field outside constructors:
    plain assignments and mem::replace / mem::take through `&mut field`."""
    out = []
    for b in crate.bodies:
        for bi in sorted(b.reach()):
            blk = b.blocks[bi]
            for s in blk["stmts"]:
                if s["k"] == "assign" and _is_field_place(s["p"], flag):
                    rv = s["rv"]
                    role = None
                    if rv["k"] == "use":
                        role = flag.role(_const_state(b, rv["op"], flag))
                    elif rv["k"] == "aggregate" and rv.get("adt") == flag.enum:
                        role = flag.role(rv.get("variant"))
                    out.append((b, bi, role, "assign"))
            t = blk["term"]
            if t["k"] == "call":
                f = fn_of(t) or {}
                if f.get("def") in ("std::mem::replace", "std::mem::take", "std::mem::swap") and t["args"] and _reads_field(b, t["args"][0], flag):
                    role = flag.role(_const_state(b, t["args"][1], flag)) if f["def"] == "std::mem::replace" and len(t["args"]) == 2 else None
                    out.append((b, bi, role, f["def"].rsplit("::", 1)[-1]))
                elif f.get("local") and len(t["args"]) == 1 and _reads_field(b, t["args"][0], flag):
                    mcal = crate.by_id.get(f.get("resolved") or f.get("def"))
                    summ = method_summary(crate, mcal, flag) if mcal is not None else None
                    if summ is not None:
                        finals = {summ[CLEAR][1], summ[SET][1]}
                        out.append((b, bi, SET if finals == {SET} else None, "method " + mcal.name))
    return out


def mut_borrow_escapes(crate, flag):
    """[(body, block)] where `&mut field` is taken for anything other than mem::replace(_, const)."""
    from model import uses_of_local

    out = []
    for b in crate.bodies:
        for bi, blk in enumerate(b.blocks):
            for s in blk["stmts"]:
                if not (s["k"] == "assign" and s["rv"]["k"] == "ref" and s["rv"].get("mut") and _is_field_place(s["rv"]["p"], flag)):
                    continue
                ok = False
                cur = s["p"]["l"] if not s["p"]["pr"] else None
                for _ in range(4):
                    if cur is None:
                        break
                    us = [(ub, ui, how) for ub, ui, how in uses_of_local(b, cur) if how != "drop"]
                    if len(us) != 1:
                        break
                    ub, ui, how = us[0]
                    if isinstance(how, tuple) and how[0] == "callarg":
                        ct = b.blocks[ub]["term"]
                        ok = (fn_of(ct) or {}).get("def") == "std::mem::replace" and is_place(ct["args"][0]) and ct["args"][0]["p"]["l"] == cur and _const_state(b, ct["args"][1], flag) is not None
                        if not ok and (fn_of(ct) or {}).get("local") and len(ct["args"]) == 1:
                            mcal = crate.by_id.get((fn_of(ct) or {}).get("resolved") or (fn_of(ct) or {}).get("def"))
                            ok = mcal is not None and method_summary(crate, mcal, flag) is not None
                        break
                    if how == "stmt":
                        s2 = b.blocks[ub]["stmts"][ui]
                        rv2 = s2["rv"]
                        reborrow = rv2["k"] == "ref" and rv2["p"]["l"] == cur and [e["k"] for e in rv2["p"]["pr"]] == ["deref"]
                        moved = rv2["k"] == "use" and is_place(rv2["op"]) and rv2["op"]["p"]["l"] == cur and not rv2["op"]["p"]["pr"]
                        if (reborrow or moved) and not s2["p"]["pr"]:
                            cur = s2["p"]["l"]
                            continue
                    break
                if not ok:
                    out.append((b, bi))
    return out
