"""C12 — I/O faults are handled faithfully (R12.1 unused results, R12.2 libyaml read error)."""
import json
import os

from engine import rule, AnchorLost, VERIF
from model import fn_of, trace, is_place, site, uses_of_local, const_value, strace, Super, CLOSURE_CALLS
import common
import deny

DISCARDERS = {
    "std::result::Result::<T, E>::ok": "ok()",
    # only the verdict is kept; which of the two is asked is a matter of style
    "std::result::Result::<T, E>::is_ok": "is_ok()/is_err()",
    "std::result::Result::<T, E>::is_err": "is_ok()/is_err()",
    "std::result::Result::<T, E>::unwrap_or": "unwrap_or()",
    "std::result::Result::<T, E>::unwrap_or_else": "unwrap_or_else()",
    "std::result::Result::<T, E>::unwrap_or_default": "unwrap_or_default()",
    "std::result::Result::<T, E>::or": "or()",
    "std::result::Result::<T, E>::is_ok_and": "is_ok_and()",
    # the Err side is replaced by a default: `r.map_or(fallback, f)` never looks at the error
    "std::result::Result::<T, E>::map_or": "map_or()",
}


def _classify_uses(b, local, depth=0, seen=None):
    """Set of use classes of a Result-typed local: consumed / inspected / returned / dropped / discard:<how>."""
    seen = seen or set()
    if local in seen or depth > 6:
        return set()
    seen.add(local)
    out = set()
    for bi, idx, how in uses_of_local(b, local):
        if how == "drop":
            out.add("dropped")
        elif isinstance(how, tuple) and how[0] == "callarg":
            f = fn_of(b.blocks[bi]["term"]) or {}
            d = f.get("def", "")
            if d == "std::result::Result::<T, E>::unwrap_or_else" and _closure_reads_error(b, f):
                # the error is handed to a handler that looks at it (e.g. reports it and exits)
                out.add("consumed")
            elif d in DISCARDERS:
                out.add("discard:" + DISCARDERS[d])
            else:
                out.add("consumed")
        elif how == "stmt":
            s = b.blocks[bi]["stmts"][idx]
            rv = s["rv"]
            tgt = s["p"]
            if rv["k"] == "discr":
                out.add("inspected")
            elif rv["k"] in ("use",) and is_place(rv["op"]) and rv["op"]["p"]["pr"]:
                out.add("inspected")
            elif rv["k"] == "use" and tgt["l"] == 0:
                out.add("returned")
            elif rv["k"] in ("use", "ref", "copyforderef", "cast") and not tgt["pr"]:
                if rv["k"] == "ref" and rv["p"]["pr"]:
                    out.add("inspected")
                else:
                    out |= _classify_uses(b, tgt["l"], depth + 1, seen)
            elif rv["k"] == "aggregate":
                out.add("consumed")
            else:
                out.add("consumed")
        else:
            out.add("consumed")
    return out


def _closure_reads_error(b, f):
    cls = [b.crate.by_id.get(c) for c in f.get("closures", [])]
    cls = [c for c in cls if c is not None]
    if len(cls) != 1 or cls[0].nargs < 2:
        return False
    return any(how != "drop" for _, _, how in uses_of_local(cls[0], 2))


IO_CAPABLE = ("std::io::Error", "error::Error", "xt::Error", "serde_json::Error", "rmp_serde::decode::Error", "rmp_serde::encode::Error", "serde_yaml::Error", "transcode::stream::Error<")


# error types that cannot carry an I/O or parser failure: a Result over them is outside this property
NON_IO_ERRORS = ("std::str::Utf8Error", "std::string::FromUtf8Error", "std::array::TryFromSliceError", "std::convert::Infallible",
                 "std::num::TryFromIntError", "std::char::CharTryFromError", "std::char::DecodeUtf16Error", "std::num::ParseIntError", "std::ffi::OsString", "&'static str", "&str", "()")


def _fieldless_local_enum(crate, ety):
    """A same-crate error enum none of whose variants has a payload (`ReadSizeError::{Truncated, ..}`): it can say
    which case occurred and nothing else, so it cannot carry an I/O or parser failure."""
    a = crate.adts.get(ety)
    return bool(a and a.get("crate") == "xt" and a["kind"] == "enum" and a["variants"] and all(not v["fields"] for v in a["variants"]))


def _err_type_of(ty):
    import re

    m = re.match(r"std::result::Result<(.*), ([^,]+(?:<.*>)?)>$", ty)
    return m.group(2).strip() if m else ""


def _err_payload_used(b, local, under_some=False):
    """Some statement or call reads `(local as Err).0` (moves it, borrows it, inspects it); with under_some, the
    Result is the payload of an Option held in `local`: `((local as Some).0 as Err).0`."""

    def mentions(p):
        pr = p["pr"]
        if under_some:
            if not (len(pr) >= 2 and pr[0]["k"] == "downcast" and pr[0].get("variant") == "Some" and pr[1]["k"] == "field"):
                return False
            pr = pr[2:]
        return p["l"] == local and any(e["k"] == "downcast" and e["variant"] == "Err" for e in pr)

    for bi in b.reach():
        blk = b.blocks[bi]
        for s in blk["stmts"]:
            if s["k"] != "assign":
                continue
            rv = s["rv"]
            ps = []
            if "p" in rv:
                ps.append(rv["p"])
            for o in ("op", "a", "b"):
                if o in rv and isinstance(rv[o], dict) and rv[o].get("k") in ("copy", "move"):
                    ps.append(rv[o]["p"])
            if rv["k"] == "aggregate":
                ps += [o["p"] for o in rv["ops"] if o.get("k") in ("copy", "move")]
            if any(mentions(p) for p in ps):
                return True
        t = blk["term"]
        if t["k"] == "call" and any(a.get("k") in ("copy", "move") and mentions(a["p"]) for a in t["args"]):
            return True
        if t["k"] == "switch" and t["discr"].get("k") in ("copy", "move") and mentions(t["discr"]["p"]):
            return True
    return False


def _classify_optional_result(b, local):
    """None when the `Err` inside an `Option<Result<_, E>>` local is handled (the whole value or the inner Result
    is handed on, returned or propagated, or its error payload is read); else a short description."""
    inner = []  # locals that receive the Some payload
    whole_ok = False
    in_place = False
    for bi, idx, how in uses_of_local(b, local):
        if how == "drop":
            continue
        if isinstance(how, tuple) and how[0] == "callarg":
            whole_ok = True
        elif how == "stmt":
            s_ = b.blocks[bi]["stmts"][idx]
            rv = s_["rv"]
            if rv["k"] == "discr":
                pr = rv["p"]["pr"]
                if len(pr) >= 2 and pr[0]["k"] == "downcast" and pr[0].get("variant") == "Some":
                    in_place = True
                continue
            if rv["k"] == "use" and is_place(rv["op"]) and rv["op"]["p"]["l"] == local:
                pr = rv["op"]["p"]["pr"]
                if not pr:
                    if s_["p"]["l"] == 0:
                        whole_ok = True
                    elif not s_["p"]["pr"]:
                        v2 = _classify_optional_result(b, s_["p"]["l"])
                        if v2 is None:
                            whole_ok = True
                    else:
                        whole_ok = True
                elif len(pr) == 2 and pr[0]["k"] == "downcast" and pr[0].get("variant") == "Some" and pr[1]["k"] == "field" and not s_["p"]["pr"]:
                    inner.append(s_["p"]["l"])
                elif len(pr) > 2:
                    in_place = True
            elif rv["k"] in ("ref", "aggregate"):
                whole_ok = True
        elif how == "ret":
            whole_ok = True
    if whole_ok:
        return None
    for r in inner:
        cls = _classify_uses(b, r)
        good = cls & {"consumed", "inspected", "returned"}
        if good == {"inspected"} and not _err_payload_used(b, r):
            return "matched on but never read"
        if good:
            return None
    if in_place:
        return None if _err_payload_used(b, local, under_some=True) else "matched on but never read"
    if inner:
        return "dropped"
    return None


def _is_error_line_to_stderr(b, t):
    f = fn_of(t) or {}
    if not (common.is_io_write_call(t) and f.get("name") == "write_fmt" and "Stderr" in (f.get("self_ty", "") + " ".join(f.get("args", []))) and len(t["args"]) > 1):
        return False
    tp = common.template_of(b, t["args"][1])
    return bool(tp and isinstance(tp[1], str) and tp[1].startswith("xt error"))


def _diagnostic_before_exit(b, bb, t):
    """The call writes to standard error and every path from it ends in process::exit: the documented
    'print the message, ignore a failing stderr, exit' idiom."""
    f = fn_of(t) or {}
    direct = common.is_io_write_call(t) and "Stderr" in (f.get("self_ty", "") + " ".join(f.get("args", [])))
    # or a same-crate message writer that is handed standard error and does nothing but write to it
    via_helper = False
    if not direct and f.get("local"):
        callee = b.crate.by_id.get(f.get("resolved") or f.get("def"))
        to_stderr = any(is_place(a) and "Stderr" in b.local_ty(a["p"]["l"]) for a in t["args"]) or "Stderr" in " ".join(f.get("args", []))
        if callee is not None and to_stderr:
            calls = [tt for _, tt in callee.calls()]
            via_helper = bool(calls) and all(common.is_io_write_call(tt) or "fmt::Arguments" in (fn_of(tt) or {}).get("def", "") or "fmt::rt::Argument" in (fn_of(tt) or {}).get("def", "") for tt in calls)
    if not direct and not via_helper:
        return False
    if t["target"] is None:
        return False
    return _only_exit_follows(b, t["target"])


def _only_exit_follows(b, start, depth=0):
    """Every path from block `start` of b ends in process::exit — in b itself, or, where b returns, in every caller
    right after the call (a non-diverging `write_line(args)` helper used only by the bail macros)."""
    r = b.reachable_from(start)
    ends = [x for x in r if not b.succ(x)]
    if not ends:
        return False
    exits = False
    returns = False
    for x in ends:
        tt = b.blocks[x]["term"]
        if tt["k"] == "unreachable":
            continue
        if tt["k"] == "return":
            returns = True
            continue
        if not (tt["k"] == "call" and (fn_of(tt) or {}).get("def") == "std::process::exit"):
            return False
        exits = True
    if returns:
        if depth >= 2:
            return False
        sites = []
        for cb in b.crate.bodies:
            for cbb, ct in cb.calls():
                cf = fn_of(ct) or {}
                if (cf.get("resolved") or cf.get("def")) == b.id:
                    sites.append((cb, ct))
            # the helper must not escape as a value
            for blk in cb.blocks:
                for s_ in blk["stmts"]:
                    if s_["k"] == "assign":
                        rv = s_["rv"]
                        for o in [rv.get("op")] + list(rv.get("ops", [])):
                            if isinstance(o, dict) and o.get("k") == "fn" and o.get("def") == b.id:
                                return False
        if not sites:
            return False
        for cb, ct in sites:
            if ct.get("target") is None or not _only_exit_follows(cb, ct["target"], depth + 1):
                return False
        return True
    return exits


def _reviewed():
    return json.load(open(os.path.join(VERIF, "tables", "discards.json")))["entries"]


_RESULT_VIEWS = ("std::result::Result::<T, E>::as_ref", "std::result::Result::<T, E>::as_mut", "std::result::Result::<T, E>::as_deref", "std::result::Result::<T, E>::as_deref_mut")


@rule("R12.1", 40, "no fallible result is discarded: every Result produced by a call is propagated, matched on, returned or handed on (reviewed exceptions enumerated)", ["C12", "C11", "C13"])
def r12_1(ctx):
    reviewed = _reviewed()
    budget = {}
    for e in reviewed:
        budget[(e["crate"], e["file"], e["callee"], e["form"])] = budget.get((e["crate"], e["file"], e["callee"], e["form"]), 0) + e.get("count", 1)
    used = {}
    seen_ok = {}
    pending = []
    moved_from = {}
    n = 0
    for crate in (ctx.lib, ctx.bin):
        for b in crate.bodies:
            for bb, t in b.calls():
                d = t["dest"]
                if d["pr"]:
                    continue
                ty = b.local_ty(d["l"])
                if ty.startswith("std::option::Option<std::result::Result<") and d["l"] != 0:
                    # an item of a fallible iterator (`chunker.next()`, `chars.next()`): the Result inside the Some
                    ety = _err_type_of(ty[len("std::option::Option<"):-1])
                    if any(ety.startswith(x) for x in IO_CAPABLE):
                        f = fn_of(t) or {}
                        n += 1
                        verdict = _classify_optional_result(b, d["l"])
                        k = (crate.kind, b.id, f.get("name", "?") + "?")
                        seen_ok[k] = seen_ok.get(k, 0) + 1
                        ctx.ob(f"handled:{crate.kind}:{b.id}:{f.get('name', '?')}:item:{seen_ok[k] - 1}", verdict is None, site(b, bb),
                               "the item's error is propagated, returned or looked at" if verdict is None else f"the `Err` inside the item of `{f.get('def')}` is {verdict}: a failing source would be skipped over silently")
                    continue
                if not ty.startswith("std::result::Result<"):
                    continue
                if d["l"] == 0:
                    n += 1
                    continue
                f = fn_of(t) or {}
                if f.get("def") in ("std::ops::Try::branch", "std::ops::FromResidual::from_residual"):
                    continue
                if f.get("def") in _RESULT_VIEWS and t["args"] and is_place(t["args"][0]) and b.local_ty(t["args"][0]["p"]["l"]).startswith("&"):
                    # a borrowed view of a Result that stays where it is (`result.as_ref().unwrap_or(&0)`): whatever is
                    # done with the view, the error is still in the original, which is judged as its own producer
                    continue
                n += 1
                cls = _classify_uses(b, d["l"])
                good = cls & {"consumed", "inspected", "returned"}
                ety = _err_type_of(ty)
                if not good and (ety in NON_IO_ERRORS or _fieldless_local_enum(crate, ety)):
                    k = (crate.kind, b.id, f.get("name", "?"))
                    seen_ok[k] = seen_ok.get(k, 0) + 1
                    ctx.ob(f"handled:{crate.kind}:{b.id}:{f.get('name', '?')}:{seen_ok[k] - 1}", True, site(b, bb), f"error type {ety} cannot carry an I/O or parser failure", trivial=True)
                    continue
                if good == {"inspected"} and any(ety.startswith(x) for x in IO_CAPABLE) and not _err_payload_used(b, d["l"]):
                    # matched on, but the Err arm never looks at the error: an I/O failure is silently treated like another outcome
                    good = set()
                    cls = {"matched-but-error-dropped"}
                if good:
                    k = (crate.kind, b.id, f.get("name", "?"))
                    seen_ok[k] = seen_ok.get(k, 0) + 1
                    ctx.ob(f"handled:{crate.kind}:{b.id}:{f.get('name', '?')}:{seen_ok[k] - 1}", True, site(b, bb), "result is " + ",".join(sorted(good)))
                    continue
                form = ",".join(sorted(cls)) or "unused"
                if form.startswith("discard:is_ok()/is_err()") and common.is_io_write_call(t) and (f.get("self_ty") or "").replace("&mut ", "") in ("[u8]",):
                    # a formatted write into a fixed byte slice can only fail with "does not fit", and that is what the
                    # verdict says; nothing about the failure is lost by not looking at the error value
                    k = (crate.kind, b.id, f.get("name", "?"))
                    seen_ok[k] = seen_ok.get(k, 0) + 1
                    ctx.ob(f"handled:{crate.kind}:{b.id}:{f.get('name', '?')}:{seen_ok[k] - 1}", True, site(b, bb), "write into a fixed in-memory slice: the is_ok()/is_err() verdict is the whole outcome (fits / does not fit)", trivial=True)
                    continue
                if form == "dropped" and _is_error_line_to_stderr(b, t):
                    # `xt error ...` written to stderr by a report-and-carry-on macro (`-k`): if stderr itself fails there
                    # is nowhere left to say so; that the run still ends with status 1 is R13.1's business
                    k = (crate.kind, b.id, f.get("name", "?"))
                    seen_ok[k] = seen_ok.get(k, 0) + 1
                    ctx.ob(f"handled:{crate.kind}:{b.id}:{f.get('name', '?')}:{seen_ok[k] - 1}", True, site(b, bb), "best-effort diagnostic: the 'xt error' line itself, written to stderr", trivial=True)
                    continue
                if form == "dropped" and _diagnostic_before_exit(b, bb, t):
                    k = (crate.kind, b.id, f.get("name", "?"))
                    seen_ok[k] = seen_ok.get(k, 0) + 1
                    ctx.ob(f"handled:{crate.kind}:{b.id}:{f.get('name', '?')}:{seen_ok[k] - 1}", True, site(b, bb), "best-effort diagnostic: a write to stderr whose every continuation is process::exit", trivial=True)
                    continue
                key = (crate.kind, b.file, f.get("name", "?"), form)
                used[key] = used.get(key, 0) + 1
                if used[key] <= budget.get(key, 0):
                    ctx.ob(f"reviewed:{crate.kind}:{b.name}:{f.get('name')}:{form}:{used[key]}", True, site(b, bb),
                           "reviewed exception: " + [e["reason"] for e in reviewed if (e["crate"], e["file"], e["callee"], e["form"]) == key][0], trivial=True)
                else:
                    pending.append((key, crate, b, bb, f, form))
    # a reviewed exception whose function moved to another file (same function name, same callee, same form):
    # the entry of the old file, now under-used, covers it
    for key, crate, b, bb, f, form in pending:
        donor = None
        for e in reviewed:
            ek = (e["crate"], e["file"], e["callee"], e["form"])
            if e["crate"] == crate.kind and e["file"] != b.file and e["callee"] == f.get("name", "?") and e["form"] == form and e["function"].rsplit("::", 1)[-1] == b.name:
                if min(used.get(ek, 0), budget.get(ek, 0)) + moved_from.get(ek, 0) < budget.get(ek, 0):
                    donor = (ek, e)
                    break
        if donor:
            moved_from[donor[0]] = moved_from.get(donor[0], 0) + 1
            ctx.ob(f"reviewed:{crate.kind}:{b.name}:{f.get('name')}:{form}:moved:{moved_from[donor[0]]}", True, site(b, bb),
                   f"reviewed exception (the function moved here from {donor[1]['file']}): " + donor[1]["reason"], trivial=True)
        else:
            ctx.ob(f"discarded:{crate.kind}:{b.name}:{f.get('name')}:{form}", False, site(b, bb),
                   f"the Result of `{f.get('def')}` is {form}: an I/O or parse failure here would go unnoticed")
    ctx.ob("result-producing-calls", n >= 40, "lib+bin", f"{n} Result-producing call site(s) examined")
    for key, cnt in budget.items():
        if used.get(key, 0) < cnt:
            ctx.ob(f"reviewed-entry-stale:{key[1]}:{key[2]}", True, "tables/discards.json", f"reviewed exception {key} no longer present ({used.get(key, 0)}/{cnt})", trivial=True)
    deny.control_obligations(ctx, "discard")
    # the control crate's discards must be flagged by this very classifier
    ctl = ctx.facts.controls
    if ctl:
        b = [x for x in ctl.bodies if x.name == "discards"]
        flagged = 0
        if b:
            for bb, t in b[0].calls():
                d = t["dest"]
                if not d["pr"] and b[0].local_ty(d["l"]).startswith("std::result::Result<") and d["l"] != 0:
                    if not (_classify_uses(b[0], d["l"]) & {"consumed", "inspected", "returned"}):
                        flagged += 1
        ctx.ob("control:classifier", flagged >= 5, "tables/controls/src/lib.rs", f"classifier flags {flagged} of the 5 discarding forms in the positive control", trivial=True)


def _some_payload_returned(b, res):
    """The value taken out of the slot (`res: Option<io::Error>`) is, on its Some arm, the error the function
    returns: some definition of the return value (or of the Err it wraps) traces back to `(res as Some).0`."""
    cands = []
    for dbb, idx, kind, payload in b.whole_defs(0):
        if kind == "assign" and payload["rv"]["k"] == "aggregate" and payload["rv"]["ops"]:
            cands.append(payload["rv"]["ops"][0])
        elif kind == "assign" and payload["rv"]["k"] == "use":
            cands.append(payload["rv"]["op"])
    work = list(cands)
    seen = 0
    while work and seen < 40:
        seen += 1
        o = work.pop()
        if not is_place(o):
            continue
        tr = trace(b, o)
        if tr.origin and tr.origin[0] == "call" and not tr.origin[2]["dest"]["pr"] and tr.origin[2]["dest"]["l"] == res and any(st[0] == "downcast" and st[1] == "Some" for st in tr.steps):
            return True
        if tr.origin and tr.origin[0] == "multi":
            for _, _, k, p_ in tr.origin[2]:
                if k == "assign" and p_["rv"]["k"] == "use":
                    work.append(p_["rv"]["op"])
                elif k == "assign" and p_["rv"]["k"] == "aggregate":
                    work.extend(p_["rv"]["ops"])
        if tr.origin and tr.origin[0] == "agg":
            work.extend(tr.origin[1]["rv"]["ops"])
    return False


@rule("R12.2", 5, "the reader's own error is what comes back from the YAML parser binding: stashed on failure, cleared on success, taken before any fallback", ["C12"])
def r12_2(ctx):
    lib = ctx.lib
    # the read callback: an unsafe fn that calls io::Read::read on a field of a struct reached through a raw pointer
    cbs = [b for b in lib.bodies if b.raw.get("unsafe_fn") and any((fn_of(t) or {}).get("trait") == "std::io::Read" and fn_of(t)["name"] == "read" for _, t in b.calls())]
    ctx.need(len(cbs) == 1, f"read callback (unsafe fn calling io::Read::read) not found ({len(cbs)})")
    cb = cbs[0]
    rd = [(bb, t) for bb, t in cb.calls() if (fn_of(t) or {}).get("trait") == "std::io::Read" and fn_of(t)["name"] == "read"][0]
    # error slot: Option<io::Error> field written in the callback (or in a helper method it calls: the callback is
    # examined with its same-crate helpers inlined)
    sup = Super(lib, cb, depth=2)
    rdn = ((), rd[0])
    writes = []
    for n in sorted(sup.nodes(), key=str):
        nb = sup.body_of(n)
        for s in nb.blocks[n[1]]["stmts"]:
            if s["k"] == "assign" and s["p"]["pr"] and s["p"]["pr"][-1]["k"] == "field" and "Option<std::io::Error>" in s["p"]["pr"][-1]["ty"]:
                writes.append((n, s))
    ctx.need(writes, "no write to an Option<io::Error> slot in the read callback")
    slot = writes[0][1]["p"]["pr"][-1]["name"]
    slot_adt = writes[0][1]["p"]["pr"][-1].get("adt")

    def const_return(body):
        """The one constant a helper returns on every path, or None."""
        vs = set()
        for _, _, k_, p_ in body.whole_defs(0):
            if k_ == "assign" and p_["rv"]["k"] == "use" and p_["rv"]["op"].get("k") == "const":
                vs.add(p_["rv"]["op"].get("v"))
            else:
                vs.add(None)
        return vs.pop() if len(vs) == 1 else None

    # classify returns: constants returned by the callback, directly or as the value of a helper that returns a constant
    rets = {}
    for bi in sorted(cb.reach()):
        for s in cb.blocks[bi]["stmts"]:
            if s["k"] == "assign" and s["p"]["l"] == 0 and not s["p"]["pr"] and s["rv"]["k"] == "use" and s["rv"]["op"].get("k") == "const":
                rets[((), bi)] = s["rv"]["op"].get("v")
        t_ = cb.blocks[bi]["term"]
        if t_["k"] == "call" and not t_["dest"]["pr"] and t_["dest"]["l"] == 0:
            hb = lib.by_id.get((fn_of(t_) or {}).get("resolved") or (fn_of(t_) or {}).get("def"))
            v_ = const_return(hb) if hb is not None else None
            if v_ is not None:
                rets[((), bi)] = v_
    after_read = set(sup.reachable_from(((), rd[1]["target"])))
    fail_blocks = [n for n, v in rets.items() if v == 0 and n in after_read]
    ok_blocks = [n for n, v in rets.items() if v == 1 and n in after_read]
    ctx.ob("callback:return-codes", bool(fail_blocks) and bool(ok_blocks), site(cb), f"failure returns at blocks {[n[1] for n in fail_blocks]}, success at {[n[1] for n in ok_blocks]}")
    some_writes = []
    none_writes = []
    for n, s in writes:
        nb = sup.body_of(n)
        tr = trace(nb, s["rv"]["op"]) if s["rv"]["k"] == "use" else None
        if s["rv"]["k"] == "aggregate" and s["rv"].get("variant") == "Some":
            some_writes.append((n, s["rv"]))
        elif s["rv"]["k"] == "aggregate" and s["rv"].get("variant") == "None":
            none_writes.append((n, s["rv"]))
        elif tr and tr.origin and tr.origin[0] == "agg":
            (some_writes if tr.origin[1]["rv"].get("variant") == "Some" else none_writes).append(((n[0], tr.origin[1].get("bb", n[1])) if False else n, tr.origin[1]["rv"]))

    def precedes(wn, fn_):
        """The write at node wn lies on every path to the return at root node fn_ (or belongs to the helper call that
        ends that very block)."""
        if wn == fn_ or (wn[0] and wn[0][0][1] == fn_[1] and not fn_[0]):
            return True
        return sup.dominates(wn, fn_)

    for fb in fail_blocks:
        ok = any(precedes(wn, fb) for wn, _ in some_writes)
        ctx.ob(f"callback:failure-stores-error:{fail_blocks.index(fb)}", ok, site(cb, fb[1]), "failure return is preceded by storing Some(error)" if ok else "the callback reports failure without recording the reader's error")
    # the Err arm stores the reader's own error
    own = False
    for wn, agg in some_writes:
        op = agg["ops"][0] if agg.get("ops") else None
        if op is not None:
            tr = strace(sup, wn, op)
            if tr.origin and tr.origin[0] == "call" and tr.origin[2] is rd[1] and any(st[0] == "downcast" and st[1] == "Err" for st in tr.steps):
                own = True
    ctx.ob("callback:stores-readers-own-error", own, site(cb), "the Err arm stores the very error returned by Read::read" if own else "the reader's error value is replaced before being stored")
    for ob in ok_blocks:
        ok = any(precedes(wn, ob) for wn, _ in none_writes)
        ctx.ob("callback:success-clears-slot", ok, site(cb, ob[1]), "success clears the slot" if ok else "a stale error can survive a successful read")
    # next_event: the error returned on failure derives from take() of the slot before any fallback
    users = []
    for b in lib.bodies:
        for bb, t in b.calls():
            f = fn_of(t) or {}
            if f.get("name") == "take" and "std::io::Error" in f.get("full", "") and f.get("def", "").startswith("std::option::Option"):
                tr = trace(b, t["args"][0])
                if any(st[0] == "field" and st[1] == slot for st in tr.steps):
                    users.append((b, bb, t))
    ctx.ob("next_event:takes-slot", len(users) >= 1, site(cb), f"{len(users)} take() of the `{slot}` slot outside the callback")
    # a small accessor that only hands the taken value back (`fn take_read_error(&mut self) -> Option<io::Error>`):
    # what matters is what its callers do with it
    expanded = []
    for b, bb, t in users:
        res0 = t["dest"]["l"]
        returned = not t["dest"]["pr"] and (res0 == 0 or any(k_ == "assign" and p_["rv"]["k"] == "use" and is_place(p_["rv"]["op"]) and not p_["rv"]["op"]["p"]["pr"] and p_["rv"]["op"]["p"]["l"] == res0 for _, _, k_, p_ in b.whole_defs(0)))
        callers = [(cb_, cbb_, ct_) for cb_ in lib.bodies for cbb_, ct_ in cb_.calls() if ((fn_of(ct_) or {}).get("resolved") or (fn_of(ct_) or {}).get("def")) == b.id] if returned else []
        if returned and callers:
            expanded.extend(callers)
        else:
            expanded.append((b, bb, t))
    users = expanded
    for b, bb, t in users:
        # result of take() is used as primary of unwrap_or_else / or_else / match
        res = t["dest"]["l"]
        nxt = [fn_of(tt)["name"] for ub, tt in b.calls() if any(is_place(a) and a["p"]["l"] == res for a in tt["args"])]
        ok = any(n in ("unwrap_or_else", "unwrap_or", "or_else", "ok_or", "ok_or_else", "map_or_else") for n in nxt) or bool(__import__("r_bin").result_switches(b, res))
        if ok and not any(n in ("unwrap_or_else", "unwrap_or", "or_else", "ok_or", "ok_or_else", "map_or_else") for n in nxt):
            # matched on by hand: the Some payload itself must be what is handed back
            ok = _some_payload_returned(b, res)
        ctx.ob(f"next_event:stashed-error-first:{b.name}", ok, site(b, bb), f"stashed error is preferred; fallback only when none ({nxt})" if ok else "the stashed reader error is taken but not returned")
    # the chunker wraps, not replaces: io::Error::new(kind, err) with err as payload
    ch = common.chunker(ctx.facts)
    nw = 0
    csup = ch["sup"]
    seen_sites = set()
    for n, cn, t in csup.calls():
        if cn.file != ch["loop"].file or (cn.id, n[1]) in seen_sites:
            continue
        f = fn_of(t) or {}
        if f.get("def", "").startswith("std::io::Error::new"):
            seen_sites.add((cn.id, n[1]))
            nw += 1
            # the payload is the Err payload of a call's result, possibly handed through a wrapping helper
            tr = strace(csup, n, t["args"][1])
            ok = bool(tr.origin and tr.origin[0] == "call" and any(st[0] == "downcast" and st[1] == "Err" for st in tr.steps))
            ltr = trace(cn, t["args"][1])
            if not ok and cn.raw["def_kind"] == "Closure" and ltr.origin and ltr.origin[0] == "arg" and ltr.origin[1] == 2 and all(st[0] == "use" for st in ltr.steps):
                # `result.map_err(|err| io::Error::new(kind, err))`: the closure's argument is the Err payload
                for pb in lib.bodies:
                    for pbb, pt in pb.calls():
                        pf = fn_of(pt) or {}
                        if cn.id in pf.get("closures", []) and pf.get("def") == "std::result::Result::<T, E>::map_err":
                            ok = True
            ctx.ob("chunker:wraps-parser-error", ok, csup.site(n), "the parser/reader error is the payload of the InvalidData error (Display shows it)" if ok else "the chunker replaces the underlying error")
    ctx.ob("chunker:wrap-sites", nw >= 1, site(ch["loop"]), f"{nw} io::Error::new site(s) in the chunker")


# --------------------------------------------------------------------------- synthetic end-of-input errors


def _kind_variant(b, op):
    tr = trace(b, op)
    if tr.origin and tr.origin[0] == "const":
        return tr.origin[1].get("ref_variant") or tr.origin[1].get("variant")
    if tr.origin and tr.origin[0] == "agg":
        return tr.origin[1]["rv"].get("variant")
    return None


def _eof_error_sites(lib):
    """[(body, block, term)]: calls that build an io::Error of kind UnexpectedEof out of nothing (`ErrorKind::UnexpectedEof.into()`,
    `io::Error::new(ErrorKind::UnexpectedEof, ..)`, `io::Error::from(kind)`)."""
    out = []
    for b in lib.bodies:
        for bb, t in b.calls():
            f = fn_of(t) or {}
            if not t["args"] or t["dest"]["pr"]:
                continue
            is_ctor = f.get("def", "").startswith("std::io::Error::new") or f.get("def") == "std::io::Error::other"
            is_conv = f.get("trait") in ("std::convert::Into", "std::convert::From") and b.local_ty(t["dest"]["l"]) == "std::io::Error"
            if not (is_ctor or is_conv):
                continue
            if _kind_variant(b, t["args"][0]) == "UnexpectedEof":
                out.append((b, bb, t))
    return out


def _eof_evidence_edges(sup):
    """Edges of the supergraph on which the source is known to be at its end: `fill_buf()` gave an empty slice
    (`.is_empty()` true, or a length compared equal to 0), or a `read` returned Ok(0)."""
    from model import strace
    edges = []

    def is_fill_head(node, op):
        tr = strace(sup, node, op, extra=("std::ops::Try::branch",))
        return bool(tr.origin and tr.origin[0] == "call" and (fn_of(tr.origin[2]) or {}).get("def") == "std::io::BufRead::fill_buf" and any(s_[0] == "downcast" and s_[1] in ("Ok", "Continue") for s_ in tr.steps))

    def is_read_count(node, op):
        tr = strace(sup, node, op, extra=("std::ops::Try::branch",))
        return bool(tr.origin and tr.origin[0] == "call" and (fn_of(tr.origin[2]) or {}).get("trait") == "std::io::Read" and (fn_of(tr.origin[2]) or {}).get("name") == "read" and any(s_[0] == "downcast" and s_[1] in ("Ok", "Continue") for s_ in tr.steps))

    for n, b, t in sup.calls():
        f = fn_of(t) or {}
        if f.get("name") == "is_empty" and f.get("def", "").startswith("core::slice") and t["args"] and is_fill_head(n, t["args"][0]) and t.get("target") is not None:
            sw = b.blocks[t["target"]]["term"]
            if sw["k"] == "switch" and is_place(sw["discr"]) and not sw["discr"]["p"]["pr"] and sw["discr"]["p"]["l"] == t["dest"]["l"]:
                edges.append(((n[0], t["target"]), "otherwise", (n[0], sw["otherwise"])))
    for n in sup.nodes():
        b = sup.body_of(n)
        blk = b.blocks[n[1]]
        sw = blk["term"]
        if sw["k"] != "switch" or not is_place(sw["discr"]):
            continue
        zero = [t_ for v_, t_ in sw["targets"] if v_ == 0]
        d = sw["discr"]
        # a length switched on directly (`match (have, available.len()) { (_, 0) => .. }`): its 0 arm
        if zero:
            lt0 = trace(b, d)
            src0 = None
            if lt0.origin and lt0.origin[0] == "rvalue" and lt0.origin[1]["rv"]["k"] == "unop" and lt0.origin[1]["rv"]["op"] == "PtrMetadata":
                src0 = lt0.origin[1]["rv"]["a"]
            elif lt0.origin and lt0.origin[0] == "call" and (fn_of(lt0.origin[2]) or {}).get("name") == "len" and lt0.origin[2]["args"]:
                src0 = lt0.origin[2]["args"][0]
            if src0 is not None and is_fill_head(n, src0):
                edges.append((n, 0, (n[0], zero[0])))
                continue
        if d["p"]["pr"]:
            # switch on the read's Ok payload: the 0 arm
            if zero and is_read_count(n, d):
                edges.append((n, 0, (n[0], zero[0])))
            continue
        # `len == 0` of the fill_buf head (slice pattern `[]`), or a bare length switched on
        dl = d["p"]["l"]

        def cval(o):
            v_ = const_value(o)
            if v_ is None and is_place(o):
                ct_ = trace(b, o)
                if ct_.origin and ct_.origin[0] == "const" and all(x[0] == "use" for x in ct_.steps):
                    v_ = ct_.origin[1].get("v")
            return v_

        for s_ in blk["stmts"]:
            if not (s_["k"] == "assign" and not s_["p"]["pr"] and s_["p"]["l"] == dl and s_["rv"]["k"] == "binop"):
                continue
            opn, cv_ = s_["rv"]["op"], cval(s_["rv"]["b"])
            # which edge means `len == 0`: Eq(len,0) true; Ge(len,1) / Gt(len,0) / Ne(len,0) false; Lt(len,1) / Le(len,0) true
            zero_on_true = (opn == "Eq" and cv_ == 0) or (opn == "Lt" and cv_ == 1) or (opn == "Le" and cv_ == 0)
            zero_on_false = (opn == "Ge" and cv_ == 1) or (opn == "Gt" and cv_ == 0) or (opn == "Ne" and cv_ == 0)
            if zero_on_true or zero_on_false:
                lt = trace(b, s_["rv"]["a"])
                src = None
                if lt.origin and lt.origin[0] == "rvalue" and lt.origin[1]["rv"]["k"] == "unop" and lt.origin[1]["rv"]["op"] == "PtrMetadata":
                    src = lt.origin[1]["rv"]["a"]
                elif lt.origin and lt.origin[0] == "call" and (fn_of(lt.origin[2]) or {}).get("name") == "len" and lt.origin[2]["args"]:
                    src = lt.origin[2]["args"][0]
                if src is not None and is_fill_head(n, src):
                    if zero_on_true:
                        edges.append((n, "otherwise", (n[0], sw["otherwise"])))
                    elif zero:
                        edges.append((n, 0, (n[0], zero[0])))
    return edges


@rule("R12.4", 1, "an 'unexpected end of input' error of xt's own making is raised only on evidence that the source is at its end (fill_buf() returned nothing, or a read returned 0): data that has merely not arrived yet is not a truncated stream", ["C12", "C02", "C07"])
def r12_4(ctx):
    from model import Super, PathSens

    lib = ctx.lib
    n = 0
    seen_k = {}

    def _nth_(d, k):
        d[k] = d.get(k, 0) + 1
        return d[k] - 1

    for b, bb, t in _eof_error_sites(lib):
        root = b
        while root.raw["def_kind"] == "Closure" and root.raw.get("parent") in lib.by_id:
            root = lib.by_id[root.raw["parent"]]
        judged = [(root, t, b, bb)]
        # a body that only builds the error (no reading of its own): judged where it is called
        reads_here = any((fn_of(tt) or {}).get("trait") in ("std::io::Read", "std::io::BufRead") or (fn_of(tt) or {}).get("local") for _, tt in root.calls())
        if not reads_here:
            callers = [(cb, cbb, ct) for cb in lib.bodies for cbb, ct in cb.calls() if ((fn_of(ct) or {}).get("resolved") or (fn_of(ct) or {}).get("def")) == root.id]
            if root.raw.get("impl_trait") == "std::convert::From" and root.nargs == 1:
                # `x.into()` / `T::from(x)` resolve to the blanket impl: match the conversion by its two types
                src_ty, dst_ty = root.local_ty(1), root.local_ty(0)
                for cb in lib.bodies:
                    for cbb, ct in cb.calls():
                        cf = fn_of(ct) or {}
                        if cf.get("trait") in ("std::convert::Into", "std::convert::From") and ct["args"] and is_place(ct["args"][0]) and cb.local_ty(ct["args"][0]["p"]["l"]) == src_ty and not ct["dest"]["pr"] and cb.local_ty(ct["dest"]["l"]) == dst_ty:
                            callers.append((cb, cbb, ct))
            if callers:
                judged = []
                for cb, cbb, ct in callers:
                    r_ = cb
                    while r_.raw["def_kind"] == "Closure" and r_.raw.get("parent") in lib.by_id:
                        r_ = lib.by_id[r_.raw["parent"]]
                    judged.append((r_, ct, cb, cbb))
        for r, st_, sb_, sbb_ in judged:
            n += 1
            sup = Super(lib, r, depth=3)
            cnodes = [nn for nn, nb, tt in sup.calls() if tt is st_]
            ev = _eof_evidence_edges(sup)
            ps = PathSens(sup, payloads=True)
            reached = ps.explore([(sup.entry, {})], removed_edges=[(a, lab, m) for a, lab, m in ev]) if cnodes else {}
            bad = [c for c in cnodes if c in reached]
            ok = bool(cnodes) and bool(ev) and not bad and not ps.overflow
            ctx.ob(f"eof-error-on-evidence:{r.name}:{sb_.name}:{_nth_(seen_k, (r.id, sb_.id))}", ok, site(sb_, sbb_),
                   f"every feasible path to this error passes an end-of-source edge ({len(ev)} such edge(s) in `{r.name}`)" if ok else
                   ("the error site is not reached in its function's supergraph" if not cnodes else "an UnexpectedEof error is built on a path without evidence that the source has ended (buffered data shorter than a unit, a short read, ..): a stream that is merely slow would be reported as truncated"))
    ctx.ob("eof-error-sites", True, "lib", f"{n} synthetic UnexpectedEof error site(s) examined", trivial=n == 0)


@rule("R16.5", 1, "no result of a write or flush is thrown away on the way to standard output: a failing write that is dropped (`.ok()`, `let _ =`, an unread match) would let xt exit 0 with output missing and nothing on stderr", ["C16"])
def r16_5(ctx):
    # R12.1's discard classifier, restricted to io::Write methods (reads and parses are C12's business, not C16's)
    from engine import Ctx

    sub = Ctx(ctx.facts, ctx.config, "R12.1")
    r12_1(sub)
    n = 0
    for o in sub.obs:
        parts = o.key.split(":")
        if parts[0] in ("discarded", "reviewed") and len(parts) >= 4 and parts[3] in ("write", "write_all", "write_fmt", "write_vectored", "flush"):
            n += 1
            ctx.ob("write-result:" + ":".join(parts[1:]), o.ok, o.site, o.detail, trivial=o.trivial)
    calls = [o for o in sub.obs if o.key == "result-producing-calls"]
    ctx.need(calls and calls[0].ok, "R12.1 examined too few Result-producing calls")
    ctx.ob("write-results-examined", True, "lib+bin", f"{n} reviewed or reported write/flush result(s) among the discards R12.1 classifies; every other write result is used")


@rule("R12.5", 2, "xt's own writes are complete writes: `Write::write` / `write_vectored` (one attempt, possibly short, `Ok(0)` when the sink is full) are called only by a wrapper's own `write` / `write_vectored` that hands the count back; everything xt itself emits goes through write_all / write! / writeln!", ["C12", "C11", "C15"])
def r12_5(ctx):
    n = 0
    for crate in (ctx.lib, ctx.bin):
        for entry, b, bb, t in deny.hits(crate.bodies, "bare-write"):
            n += 1
            f = fn_of(t) or {}
            # (the call may sit in a closure of the wrapper's method: `self.attempt(|w| w.write(buf))`)
            root = b
            while root.raw["def_kind"] == "Closure" and root.raw.get("parent") in crate.by_id:
                root = crate.by_id[root.raw["parent"]]
            wrapper = root.raw.get("impl_trait") == "std::io::Write" and root.name == f.get("name")
            ok = wrapper
            ctx.ob(f"bare-write:{crate.kind}:{root.name}:{f.get('name')}", ok, site(b, bb),
                   f"`{f.get('name')}` forwarded by the wrapper's own `{root.name}` (the caller sees the count)" if ok else
                   f"`{f.get('name')}` makes one attempt and may write only part of the data, or nothing (`Ok(0)`) when the sink is full: the rest is dropped without an error, where write_all would have reported \"failed to write whole buffer\"")
    ctx.ob("bare-write-sites", True, "lib+bin", f"{n} single-attempt write call(s) in xt, each inside a pass-through wrapper", trivial=n == 0)
    deny.control_obligations(ctx, "bare-write")


_COUNT_PASS = (
    "std::ops::Try::branch", "std::result::Result::<T, E>::map_err", "std::result::Result::<T, E>::inspect", "std::result::Result::<T, E>::inspect_err",
    "std::result::Result::<T, E>::or_else",
)


@rule("R12.7", 1, "a writer wrapper tells its caller how much was really written: the count returned by every `io::Write::write` / `write_vectored` xt implements is the count of the inner writer's own call on that same data (or the data's length after a `write_all` of it) — never a length of the wrapper's own making, which would make `write_all` and `BufWriter` drop what a short write left over", ["C12", "C08", "C15"])
def r12_7(ctx):
    n = 0
    for crate in (ctx.lib, ctx.bin):
        for b in crate.bodies:
            if b.raw.get("impl_trait") != "std::io::Write" or b.name not in ("write", "write_vectored") or b.raw["def_kind"] != "AssocFn":
                continue
            n += 1
            sup = Super(crate, b, depth=2)
            inner = []
            complete = []
            for nn, cb, t in sup.calls():
                f = fn_of(t) or {}
                if f.get("trait") == "std::io::Write" and len(t["args"]) >= 2:
                    dt = strace(sup, nn, t["args"][1])
                    whole = bool(dt.origin and dt.origin[0] == "arg" and dt.origin[1] == 2 and not dt.origin_node[0] and not any(s_[0] in ("field", "index", "downcast") for s_ in dt.steps))
                    if f["name"] == b.name and whole:
                        inner.append((nn, t))
                    elif f["name"] in ("write_all", "write_all_vectored") and whole:
                        complete.append((nn, t))
            if not inner and not complete and not any((fn_of(t) or {}).get("trait") == "std::io::Write" for _, _, t in sup.calls()):
                ctx.ob(f"count-is-inner:{crate.kind}:{b.raw.get('impl_self_adt') or b.raw.get('impl_self_ty')}:{b.name}", True, site(b), "a sink of its own (no inner writer is called): its count is its own business", trivial=True)
                continue
            bad = []
            n_ok = 0
            for rb in b.return_blocks():
                for bb_, idx, kind, payload in b.whole_defs(0):
                    if kind == "call":
                        f = fn_of(payload) or {}
                        if any(payload is t for _, t in inner):
                            n_ok += 1
                            continue
                        if f.get("def") == "std::ops::FromResidual::from_residual":
                            continue  # the error edge of `?`
                        tr = strace(sup, ((), bb_), {"k": "copy", "p": {"l": 0, "pr": []}}, extra=_COUNT_PASS)
                        if tr.origin and tr.origin[0] == "call" and any(tr.origin[2] is t for _, t in inner):
                            n_ok += 1
                            continue
                        # a helper of the wrapper that ends in the inner call (`self.check(self.0.write(buf))`)
                        argt = [strace(sup, ((), bb_), a, extra=_COUNT_PASS) for a in payload["args"] if is_place(a)]
                        if any(a.origin and a.origin[0] == "call" and any(a.origin[2] is t for _, t in inner) for a in argt):
                            n_ok += 1
                            continue
                        # `self.guarded(|w| w.write(buf))`: a helper of the wrapper runs a closure that ends in the inner
                        # call, and returns what the closure returned
                        hb = crate.by_id.get(f.get("resolved") or f.get("def")) if f.get("local") else None
                        via_closure = False
                        if hb is not None:
                            for a in payload["args"]:
                                if not is_place(a):
                                    continue
                                at = trace(b, a)
                                cid = at.origin[1]["rv"].get("closure") if at.origin and at.origin[0] == "agg" and at.origin[1]["rv"].get("agg") == "closure" else None
                                cbody = crate.by_id.get(cid)
                                if cbody is None:
                                    continue
                                tail = [t_ for _, t_ in cbody.calls() if (fn_of(t_) or {}).get("trait") == "std::io::Write" and (fn_of(t_) or {}).get("name") == b.name and not t_["dest"]["pr"] and t_["dest"]["l"] == 0]
                                runs = [(cb_, ct_) for cb_, ct_ in hb.calls() if (fn_of(ct_) or {}).get("def") in CLOSURE_CALLS]
                                if not tail or len(runs) != 1:
                                    continue
                                rl = runs[0][1]["dest"]["l"]
                                hands_back = True
                                run_t = runs[0][1]

                                def from_run(op_):
                                    ht = trace(hb, op_, passthrough_extra=_COUNT_PASS)
                                    if ht.origin and ht.origin[0] == "call" and ht.origin[2] is run_t:
                                        return True
                                    if ht.origin and ht.origin[0] == "multi" and all((k_ == "call" and p_ is run_t) for _, _, k_, p_ in ht.origin[2]):
                                        return True
                                    return is_place(op_) and not op_["p"]["pr"] and op_["p"]["l"] == rl

                                for hb_, hidx, hkind, hpay in hb.whole_defs(0):
                                    if hkind == "call":
                                        if hpay is run_t or (fn_of(hpay) or {}).get("def") == "std::ops::FromResidual::from_residual":
                                            continue
                                        # `op(..).map_err(..)` / `.or_exit_on_broken_pipe()`: something applied to the result
                                        if any(is_place(a_) and from_run(a_) for a_ in hpay["args"]):
                                            continue
                                    if hkind == "assign" and hpay["rv"]["k"] == "use" and is_place(hpay["rv"]["op"]) and from_run(hpay["rv"]["op"]):
                                        continue
                                    if hkind == "assign" and hpay["rv"]["k"] == "aggregate" and hpay["rv"].get("variant") == "Err":
                                        continue
                                    if hkind == "assign" and hpay["rv"]["k"] == "aggregate" and hpay["rv"].get("variant") == "Ok" and hpay["rv"]["ops"] and is_place(hpay["rv"]["ops"][0]) and from_run(hpay["rv"]["ops"][0]):
                                        continue
                                    hands_back = False
                                via_closure = hands_back
                        if via_closure:
                            n_ok += 1
                            continue
                        bad.append(f"the result comes from `{f.get('def')}`")
                    elif kind == "assign" and payload["rv"]["k"] == "aggregate" and payload["rv"].get("variant") == "Ok" and payload["rv"]["ops"]:
                        x = payload["rv"]["ops"][0]
                        tr = strace(sup, ((), bb_), x, extra=_COUNT_PASS)
                        if tr.origin and tr.origin[0] == "call" and any(tr.origin[2] is t for _, t in inner) and any(s_[0] == "downcast" and s_[1] in ("Continue", "Ok") for s_ in tr.steps):
                            n_ok += 1
                            continue
                        if tr.origin and tr.origin[0] == "call" and (fn_of(tr.origin[2]) or {}).get("local") and any(s_[0] == "downcast" and s_[1] in ("Continue", "Ok") for s_ in tr.steps):
                            # `let n = self.check(self.0.write(buf))?; Ok(n)`: through a helper of the wrapper
                            hn = (tr.origin_node[0], tr.origin[1])
                            argt = [strace(sup, hn, a, extra=_COUNT_PASS) for a in tr.origin[2]["args"] if is_place(a)]
                            if any(a.origin and a.origin[0] == "call" and any(a.origin[2] is t for _, t in inner) for a in argt):
                                n_ok += 1
                                continue
                        lt = strace(sup, ((), bb_), x)
                        is_len = bool(lt.origin and lt.origin[0] == "call" and (fn_of(lt.origin[2]) or {}).get("name") == "len")
                        if is_len and complete and all(sup.dominates(cn, ((), bb_)) for cn, _ in complete[:1]):
                            n_ok += 1
                            continue
                        if const_value(x) == 0 and not is_place(x):
                            n_ok += 1  # `Ok(0)`: nothing accepted, the caller keeps the data
                            continue
                        bad.append("`Ok(<a length of the wrapper's own>)`: the inner writer's count is dropped" if is_len else "the Ok count is not the inner writer's")
                    elif kind == "assign" and payload["rv"]["k"] == "use":
                        tr = strace(sup, ((), bb_), payload["rv"]["op"], extra=_COUNT_PASS)
                        if tr.origin and tr.origin[0] == "call" and any(tr.origin[2] is t for _, t in inner):
                            n_ok += 1
                            continue
                        bad.append("the result is copied from something other than the inner call")
                    else:
                        bad.append("result of unknown making")
                break
            ok = not bad and n_ok >= 1
            ctx.ob(f"count-is-inner:{crate.kind}:{b.raw.get('impl_self_adt') or b.raw.get('impl_self_ty')}:{b.name}", ok, site(b),
                   f"{n_ok} return value(s), each the inner `{b.name}`'s own result ({len(inner)} inner call(s) on the caller's data)" if ok else
                   f"{'; '.join(sorted(set(bad))) or 'no return value derives from an inner call on the caller data'}: after a short write the caller believes everything was written and the rest is lost without an error")
    ctx.ob("writer-wrappers", n >= 1, "lib+bin", f"{n} io::Write::write / write_vectored implementation(s) in xt examined")


@rule("R12.6", 1, "an I/O error is handed on as it is: no `io::Error` is rebuilt from the bare `ErrorKind` of another error (`err.kind().into()`, `io_error_kind()` -> `io::Error::from`), which keeps the category but drops the source's own message", ["C12", "C11"])
def r12_6(ctx):
    n = 0
    for crate in (ctx.lib, ctx.bin):
        for b in crate.bodies:
            for bb, t in b.calls():
                f = fn_of(t) or {}
                a = f.get("args") or []
                from_kind = f.get("trait") in ("std::convert::From", "std::convert::Into") and len(a) >= 2 and "std::io::ErrorKind" in a and "std::io::Error" in a
                new_kind = f.get("def") in ("std::io::Error::new", "std::io::Error::other") and t["args"]
                if not (from_kind or new_kind) or not t["args"]:
                    continue
                n += 1
                tr = trace(b, t["args"][0])
                src = (fn_of(tr.origin[2]) or {}).get("def") if tr.origin and tr.origin[0] == "call" else None
                bad = src in ("std::io::Error::kind", "serde_json::Error::io_error_kind")
                if new_kind and bad:
                    # `io::Error::new(e.kind(), e)` keeps the original as its source: fine
                    bad = not (len(t["args"]) >= 2 and is_place(t["args"][1]))
                ctx.ob(f"error-from-kind:{crate.kind}:{b.name}:{_nth126(_r126_seen, (ctx.config, crate.kind, b.id))}", not bad, site(b, bb),
                       "error built from a fixed kind (a synthetic error of xt's own)" if not bad else
                       f"a new io::Error is built from `{src}` of an existing error: the reader's own message (\"connection reset by peer\", a custom text) is replaced by the kind's stock text")
    _r126_seen.clear()
    ctx.ob("kind-conversions", n >= 1, "lib+bin", f"{n} io::Error construction(s) from an ErrorKind examined")


_r126_seen = {}


def _nth126(d, k):
    d[k] = d.get(k, -1) + 1
    return d[k]
