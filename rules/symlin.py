"""Symbolic linear forms over a supergraph: just enough algebra to compare offsets into a buffer.

`lin(sup, node, op)` gives the value of a usize/u64 operand as `sum(coef * atom) + const`, where atoms are
  ("pos", fp)            Cursor::position() of the cursor stored at field path `fp` of the root's `self`
  ("len", base)          length of a whole buffer (see `slice_desc` for `base`)
  ("min", {lin, lin})    std::cmp::min / Ord::min of two linear forms
  ("opaque", ...)        anything else, identified by where it is defined (same definition = same atom)
`slice_desc(sup, node, op)` gives a slice operand as `(base, start, end)`: the sub-range `start..end` (linear forms,
in elements from the start of the whole buffer) of `base`, which is
  ("buf", fp)            the vector inside the cursor at field path `fp` (Cursor::get_ref / get_mut / into_inner)
  ("arg", n, steps)      a buffer the root function was given
  ("opaque", ...)
The forms are compared structurally (`==`). Nothing is evaluated: the functions only read the MIR facts."""

from model import fn_of, is_place, const_value, strace_deep


class Lin:
    __slots__ = ("terms", "const")

    def __init__(self, terms=None, const=0):
        self.terms = {a: c for a, c in (terms or {}).items() if c != 0}
        self.const = const

    def key(self):
        return (frozenset(self.terms.items()), self.const)

    def __eq__(self, other):
        return isinstance(other, Lin) and self.key() == other.key()

    def __hash__(self):
        return hash(self.key())

    def add(self, other, sign=1):
        t = dict(self.terms)
        for a, c in other.terms.items():
            t[a] = t.get(a, 0) + sign * c
        return Lin(t, self.const + sign * other.const)

    def __repr__(self):
        pos = [(a, c) for a, c in sorted(self.terms.items(), key=repr) if c > 0]
        neg = [(a, c) for a, c in sorted(self.terms.items(), key=repr) if c < 0]
        out = " + ".join((f"{c}*" if c != 1 else "") + _atom_str(a) for a, c in pos)
        for a, c in neg:
            out += (" - " if out else "-") + (f"{-c}*" if c != -1 else "") + _atom_str(a)
        if self.const or not out:
            out += (f" + {self.const}" if out and self.const >= 0 else f" - {-self.const}" if out else str(self.const))
        return out


def _fp_str(fp):
    return ".".join(["self" if fp and fp[0] == 1 else f"arg{fp[0]}"] + [str(x) for x in fp[1:]]) if fp else "?"


def _atom_str(a):
    if a[0] == "pos":
        return f"pos({_fp_str(a[1])})"
    if a[0] == "len":
        b = a[1]
        if b[0] == "buf":
            return f"len({_fp_str(b[1])})"
        if b[0] == "arg":
            return f"len(arg{b[1]}{''.join('.' + str(x) for x in b[2])})"
        return "len(?)"
    if a[0] == "min":
        return "min(" + ", ".join(sorted(repr(x) for x in a[1])) + ")"
    if a[0] == "opaque" and len(a) >= 5 and a[1] == "arg":
        return ("self" if a[3] == 1 else f"arg{a[3]}") + "".join("." + str(x) for x in a[4])
    return "x" + str(abs(hash(a)) % 1000)


def atom(a):
    return Lin({a: 1})


_ADD = ("Add", "AddWithOverflow", "AddUnchecked")
_SUB = ("Sub", "SubWithOverflow", "SubUnchecked")
_VIEWS = ("std::io::Cursor::<T>::get_ref", "std::io::Cursor::<T>::get_mut", "std::io::Cursor::<T>::into_inner")
_SLICE_PASS = (
    "std::ops::Deref::deref", "std::ops::DerefMut::deref_mut", "std::vec::Vec::<T, A>::as_slice", "std::vec::Vec::<T, A>::as_mut_slice",
    "std::convert::AsRef::as_ref", "std::convert::AsMut::as_mut", "std::borrow::Borrow::borrow", "std::borrow::BorrowMut::borrow_mut",
)
_INDEX = ("std::ops::Index::index", "std::ops::IndexMut::index_mut")
_LEN = ("core::slice::<impl [T]>::len", "std::vec::Vec::<T, A>::len")
_MIN = ("std::cmp::min", "std::cmp::Ord::min")


def _field_path(tr):
    return tuple(s[1] for s in reversed(tr.steps) if s[0] == "field")


def _opaque(tr):
    o = tr.origin
    frame = tr.origin_node[0] if getattr(tr, "origin_node", None) else None
    if not o:
        return ("opaque", "none", id(tr))
    if o[0] == "arg":
        return ("opaque", "arg", frame, o[1], _field_path(tr))
    if o[0] == "call":
        return ("opaque", "call", frame, o[1])
    if o[0] in ("rvalue", "agg"):
        return ("opaque", o[0], frame, o[2], id(o[1]))
    if o[0] == "multi":
        return ("opaque", "multi", frame, o[1])
    return ("opaque", o[0], frame, id(o))


def lin(sup, node, op, _depth=0, log=None):
    """`log`, when given, collects (atom, node) for every `len` / `position` reading that went into the form: the
    caller decides whether the buffer or the cursor can have changed between that reading and the use."""
    if _depth > 12:
        return atom(("opaque", "depth", id(op)))
    if not is_place(op):
        v = const_value(op)
        return Lin({}, v) if isinstance(v, int) and not isinstance(v, bool) else atom(("opaque", "const", repr(op)[:80]))
    tr = strace_deep(sup, node, op)
    o = tr.origin
    frame = tr.origin_node[0]
    if o and o[0] == "const":
        v = const_value(o[1])
        if isinstance(v, int) and not isinstance(v, bool):
            return Lin({}, v)
    if o and o[0] == "rvalue" and o[1]["rv"]["k"] == "binop":
        rv = o[1]["rv"]
        fields = [s for s in tr.steps if s[0] == "field"]
        plain = (not fields) or (rv["op"].endswith("WithOverflow") and [f[1] for f in fields] == ["0"])
        if plain and rv["op"] in _ADD + _SUB:
            sub = (frame, o[2])
            a = lin(sup, sub, rv["a"], _depth + 1, log)
            b = lin(sup, sub, rv["b"], _depth + 1, log)
            return a.add(b, 1 if rv["op"] in _ADD else -1)
    through_some = [s for s in tr.steps if s[0] in ("field", "downcast")]
    payload_of_option = bool(through_some) and all((s[0] == "downcast" and s[1] in ("Some", "Continue")) or (s[0] == "field" and s[1] == "0") for s in through_some)
    if o and o[0] == "call" and (not any(s[0] == "field" for s in tr.steps) or (payload_of_option and (fn_of(o[2]) or {}).get("name") == "checked_sub")):
        t = o[2]
        d = (fn_of(t) or {}).get("def", "")
        sub = (frame, o[1])
        if d == "std::io::Cursor::<T>::position" and t["args"]:
            ct = strace_deep(sup, sub, t["args"][0])
            if ct.origin and ct.origin[0] == "arg":
                a = ("pos", (ct.origin[1],) + _field_path(ct))
                if log is not None:
                    log.append((a, sub))
                return atom(a)
        if d in _LEN and t["args"]:
            sd = slice_desc(sup, sub, t["args"][0], _depth + 1)
            if sd:
                r = sd[2].add(sd[1], -1)
                if log is not None:
                    log.extend((a, sub) for a in r.terms if a[0] == "len")
                return r
        if (fn_of(t) or {}).get("name") in ("saturating_sub", "checked_sub") and len(t["args"]) == 2 and d.startswith("core::num::"):
            # (as a symbolic difference: where the subtraction saturates or fails, the caller has a test for it)
            a = lin(sup, sub, t["args"][0], _depth + 1, log)
            b = lin(sup, sub, t["args"][1], _depth + 1, log)
            return a.add(b, -1)
        if d in _MIN and len(t["args"]) == 2:
            a = lin(sup, sub, t["args"][0], _depth + 1, log)
            b = lin(sup, sub, t["args"][1], _depth + 1, log)
            return atom(("min", frozenset((a, b))))
        if d in ("std::convert::From::from", "std::convert::Into::into", "std::convert::TryFrom::try_from") and t["args"]:
            pass
    return atom(_opaque(tr))


def _range_bounds(sup, node, op, _depth):
    """(start, end) linear forms of a Range* aggregate operand; None for an open side."""
    tr = strace_deep(sup, node, op)
    o = tr.origin
    if not (o and o[0] == "agg"):
        return None
    rv = o[1]["rv"]
    sub = (tr.origin_node[0], o[2])
    adt = rv.get("adt", "")
    ops = {f: x for f, x in zip(rv.get("fields", []), rv["ops"])}
    if adt == "std::ops::RangeFrom":
        return lin(sup, sub, ops["start"], _depth), None
    if adt == "std::ops::RangeTo":
        return Lin(), lin(sup, sub, ops["end"], _depth)
    if adt == "std::ops::Range":
        return lin(sup, sub, ops["start"], _depth), lin(sup, sub, ops["end"], _depth)
    if adt == "std::ops::RangeFull":
        return Lin(), None
    return None


def slice_desc(sup, node, op, _depth=0):
    if _depth > 12 or not is_place(op):
        return None
    tr = strace_deep(sup, node, op, extra=_SLICE_PASS)
    o = tr.origin
    frame = tr.origin_node[0]
    if o and o[0] == "call":
        t = o[2]
        d = (fn_of(t) or {}).get("def", "")
        sub = (frame, o[1])
        if d in _INDEX and len(t["args"]) == 2:
            base = slice_desc(sup, sub, t["args"][0], _depth + 1)
            rb = _range_bounds(sup, sub, t["args"][1], _depth + 1)
            if base and rb:
                s, e = rb
                return base[0], base[1].add(s), (base[1].add(e) if e is not None else base[2])
            return None
        if d in _VIEWS and t["args"]:
            ct = strace_deep(sup, sub, t["args"][0])
            if ct.origin and ct.origin[0] == "arg":
                b = ("buf", (ct.origin[1],) + _field_path(ct))
                return b, Lin(), atom(("len", b))
    if o and o[0] == "arg" and not any(s[0] == "downcast" for s in tr.steps):
        b = ("arg", o[1], _field_path(tr))
        return b, Lin(), atom(("len", b))
    b = _opaque(tr)
    return b, Lin(), atom(("len", b))
