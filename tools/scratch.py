"""Scratch build directories that never share xt's own artifacts between different source trees.

A shared CARGO_TARGET_DIR across scratch copies proved unsafe: cargo reused the library built from
the *previous* (patched) copy for the next (clean) copy. Every confirmation now gets its own target
directory, cloned from a warm one that holds only third-party dependency artifacts.
"""
import glob
import os
import shutil
import subprocess
import tempfile

VERIF = os.path.dirname(os.path.dirname(os.path.abspath(__file__)))
CACHE = os.path.join(VERIF, ".cache")
WARM = os.path.join(CACHE, "target-warm")


def _strip_xt(target):
    for pat in ("debug/deps/xt-*", "debug/deps/libxt-*", "debug/.fingerprint/xt-*", "debug/incremental", "debug/examples", "debug/xt", "debug/xt.d", "debug/libxt.*", "debug/deps/seed_demo-*", "debug/deps/demo-*", "debug/deps/integration_tests-*", "debug/.fingerprint/xt-*"):
        for p in glob.glob(os.path.join(target, pat)):
            if os.path.isdir(p):
                shutil.rmtree(p, ignore_errors=True)
            else:
                try:
                    os.unlink(p)
                except OSError:
                    pass


def warm():
    """Build /repo's tests once into the warm target (dependencies incl. dev-dependencies)."""
    marker = os.path.join(WARM, ".warm-ok")
    if os.path.exists(marker):
        return WARM
    os.makedirs(WARM, exist_ok=True)
    env = dict(os.environ, CARGO_NET_OFFLINE="true", CARGO_TARGET_DIR=WARM)
    subprocess.run("cargo test --offline --no-run 2>&1 | tail -2; cargo build --offline 2>&1 | tail -1", shell=True, cwd="/repo", env=env)
    _strip_xt(WARM)
    open(marker, "w").write("ok")
    return WARM


def fresh_target():
    """A private target dir pre-populated with dependency artifacts only. Caller removes it."""
    w = warm()
    os.makedirs(os.path.join(CACHE, "tmp-targets"), exist_ok=True)
    d = tempfile.mkdtemp(prefix="t-", dir=os.path.join(CACHE, "tmp-targets"))
    os.rmdir(d)
    subprocess.run(["cp", "-a", w, d], check=True)
    _strip_xt(d)
    return d
