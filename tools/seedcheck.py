#!/usr/bin/env python3
"""Confirm a sub-agent's seeded change and record it under /verif/seeded/<name>/.

  seedcheck.py <name> <property-id> <seed-dir> [--checks C01,C08]

Steps (all in a scratch copy of /repo outside /repo and /verif, removed afterwards):
  1. patch.diff applies to a clean copy of /repo's HEAD tree;
  2. `cargo build --offline` and `cargo test --offline` succeed with the patch (142 tests);
  3. the demonstration passes WITHOUT the patch and fails WITH it;
  4. run the listed /verif checks (default: the property's own) against the patched copy and record
     which fire.
Writes seeded/<name>/{patch.diff, demo.*, notes.md, meta.json}.
"""
import json
import os
import re
import shutil
import subprocess
import sys
import tempfile

VERIF = os.path.dirname(os.path.dirname(os.path.abspath(__file__)))
sys.path.insert(0, os.path.join(VERIF, "tools"))
import scratch  # noqa: E402

REPO = "/repo"


def sh(cmd, cwd=None, env=None, timeout=1800):
    r = subprocess.run(cmd, shell=True, cwd=cwd, env=env, stdout=subprocess.PIPE, stderr=subprocess.STDOUT, text=True, errors="replace", timeout=timeout)
    return r.returncode, r.stdout


def run_demo(copy, seed, label):
    demo_sh = os.path.join(seed, "demo.sh")
    demo_rs = os.path.join(seed, "demo.rs")
    env = dict(os.environ, CARGO_NET_OFFLINE="true")
    if os.path.exists(demo_sh):
        rc, out = sh("cargo build --offline 2>&1 | tail -2", cwd=copy, env=env)
        shutil.copy(demo_sh, os.path.join(copy, "demo_seed.sh"))
        os.chmod(os.path.join(copy, "demo_seed.sh"), 0o755)
        xt = os.path.join(os.environ.get("CARGO_TARGET_DIR", os.path.join(copy, "target")), "debug", "xt")
        rc, out = sh(f"./demo_seed.sh {xt}", cwd=copy, env=env, timeout=3000)
        os.unlink(os.path.join(copy, "demo_seed.sh"))
        return rc, out[-1500:]
    if os.path.exists(demo_rs):
        txt = open(demo_rs).read()
        if "#[test]" in txt:
            os.makedirs(os.path.join(copy, "tests"), exist_ok=True)
            dst = os.path.join(copy, "tests", "seed_demo.rs")
            shutil.copy(demo_rs, dst)
            rc, out = sh("cargo test --offline --test seed_demo 2>&1 | tail -30", cwd=copy, env=env)
            ok = "test result: ok" in out
            os.unlink(dst)
            return (0 if ok else 1), out[-1500:]
        os.makedirs(os.path.join(copy, "examples"), exist_ok=True)
        dst = os.path.join(copy, "examples", "seed_demo.rs")
        shutil.copy(demo_rs, dst)
        rc, out = sh("bash -o pipefail -c 'cargo run --offline --example seed_demo 2>&1 | tail -30'", cwd=copy, env=env)
        os.unlink(dst)
        if rc == 0 and ("panicked at" in out or out.rstrip().endswith("Aborted")):
            rc = 101
        return rc, out[-1500:]
    return None, "no demo found"


def main():
    name, pid, seed = sys.argv[1], sys.argv[2], sys.argv[3]
    checks = [pid]
    if "--checks" in sys.argv:
        checks = sys.argv[sys.argv.index("--checks") + 1].split(",")
    d = tempfile.mkdtemp(prefix="xtseed-")
    copy = os.path.join(d, "repo")
    meta = {"name": name, "property": pid, "ran": []}
    targets = []
    try:
        sh(f"git -C {REPO} archive HEAD | (mkdir -p {copy} && tar -x -C {copy})")
        t_clean = scratch.fresh_target()
        t_patched = scratch.fresh_target()
        targets.extend([t_clean, t_patched])
        # demo without the patch (its own target directory: no artifact is shared with the patched build)
        os.environ["CARGO_TARGET_DIR"] = t_clean
        rc0, out0 = run_demo(copy, seed, "clean")
        os.environ["CARGO_TARGET_DIR"] = t_patched
        env = dict(os.environ, CARGO_NET_OFFLINE="true", CARGO_TARGET_DIR=t_patched)
        meta["demo_without_patch"] = {"rc": rc0, "tail": out0[-400:]}
        rc, out = sh(f"git apply --whitespace=nowarn {os.path.join(seed, 'patch.diff')} 2>&1 || patch -p1 -s < {os.path.join(seed, 'patch.diff')}", cwd=copy)
        meta["patch_applies"] = rc == 0
        if rc != 0:
            meta["error"] = out[-500:]
            print(json.dumps(meta, indent=1))
            return 1
        rc, out = sh("cargo build --offline 2>&1 | tail -3", cwd=copy, env=env)
        meta["builds"] = "Finished" in out
        rc, out = sh("cargo test --offline 2>&1 | grep -E '^test result|FAILED|panicked' | head", cwd=copy, env=env)
        passed = sum(int(x) for x in re.findall(r"(\d+) passed", out))
        failed = sum(int(x) for x in re.findall(r"(\d+) failed", out))
        meta["tests"] = {"passed": passed, "failed": failed}
        rc1, out1 = run_demo(copy, seed, "patched")
        meta["demo_with_patch"] = {"rc": rc1, "tail": out1[-600:]}
        confirmed = meta["builds"] and passed == 142 and failed == 0 and rc0 == 0 and rc1 not in (0, None)
        meta["confirmed"] = bool(confirmed)
        # run checks on the patched copy
        shutil.rmtree(os.path.join(copy, "target"), ignore_errors=True)
        det = {}
        for c in checks:
            e = dict(os.environ, XT_REPO=copy, XT_EVIDENCE_DIR=os.path.join(d, "ev"), XT_SLOT="-seed")
            r = subprocess.run([os.path.join(VERIF, "check"), c], env=e, capture_output=True, text=True)
            fired = r.returncode == 1 and f"VIOLATION property={c}" in r.stdout
            rules = sorted(set(re.findall(r"rule (R[0-9.]+) instance ([^:\n]+(?::[^:\n ]+)*)", r.stdout)))
            det[c] = {"fired": fired, "rules": [f"{a} {b}" for a, b in rules][:6]}
        meta["checks_on_patched_tree"] = det
        meta["ran"] = [
            "git archive HEAD of /repo into a scratch copy; demo without patch; git apply patch.diff; cargo build --offline; cargo test --offline; demo with patch; ./check <id> with XT_REPO=<scratch copy>",
        ]
        out_dir = os.path.join(VERIF, "seeded", name)
        os.makedirs(out_dir, exist_ok=True)
        for f in os.listdir(seed):
            if f in ("patch.diff", "demo.sh", "demo.rs", "notes.md"):
                shutil.copy(os.path.join(seed, f), os.path.join(out_dir, f))
        notes = os.path.join(seed, "notes.md")
        meta["needs_to_manifest"] = ""
        if os.path.exists(notes):
            meta["needs_to_manifest"] = "see notes.md"
        with open(os.path.join(out_dir, "meta.json"), "w") as fh:
            json.dump(meta, fh, indent=1)
        print(json.dumps(meta, indent=1))
        return 0 if confirmed else 2
    finally:
        shutil.rmtree(d, ignore_errors=True)
        for t in targets:
            shutil.rmtree(t, ignore_errors=True)


if __name__ == "__main__":
    sys.exit(main())
