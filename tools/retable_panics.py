#!/usr/bin/env python3
"""Recompute the `count` fields of tables/panic_sites.json as the number of panic-capable edges per
(crate, file, kind) that have NO local proof on /repo's current tree (maximum over the dev and the
release-like configuration). Entries whose edges are all proved locally are dropped. The `why` texts are
kept; a kind that is open but has no entry is reported and left out (it must be reviewed by hand).
Run only after reviewing the tree: the table is the reviewed reference for later changes."""
import json
import os
import sys

VERIF = os.path.dirname(os.path.dirname(os.path.abspath(__file__)))
sys.path.insert(0, os.path.join(VERIF, "rules"))
import factgen  # noqa: E402
import model  # noqa: E402
import r_c04  # noqa: E402


def main():
    path = os.path.join(VERIF, "tables", "panic_sites.json")
    tab = json.load(open(path))
    open_counts = {}
    for cfg in ("dev", "rel"):
        d, _ = factgen.get_facts(cfg)
        facts = model.Facts(d)
        r_c04._IV.clear()
        for crate in (facts.lib, facts.bin):
            per = {}
            for fn, ks in r_c04.panic_edges(crate).items():
                b = crate.by_id[fn]
                for k, locs in ks.items():
                    for bi, ln in locs:
                        if not r_c04.local_proof(b, bi):
                            per[(crate.kind, b.file, k)] = per.get((crate.kind, b.file, k), 0) + 1
            for key, n in per.items():
                open_counts[key] = max(open_counts.get(key, 0), n)
    new = {}
    for crate, files in tab["reviewed"].items():
        for f, ks in files.items():
            for k, v in ks.items():
                n = open_counts.pop((crate, f, k), 0)
                if n == 0:
                    print("dropped (all edges proved locally):", crate, f, k)
                    continue
                if n != v["count"]:
                    print(f"count {v['count']} -> {n}:", crate, f, k)
                v = dict(v, count=n)
                new.setdefault(crate, {}).setdefault(f, {})[k] = v
    for key, n in sorted(open_counts.items()):
        print("OPEN WITHOUT REVIEW ENTRY:", key, n)
    tab["reviewed"] = new
    tab["note"] = tab.get("note", "") if "local proof" in tab.get("note", "") else (tab.get("note", "") + " Counts are edges WITHOUT a local proof (see rules/r_c04.py local_proof); edges proved dead locally are not listed.")
    json.dump(tab, open(path, "w"), indent=1)


if __name__ == "__main__":
    main()
