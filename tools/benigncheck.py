#!/usr/bin/env python3
"""Confirm a behaviour-preserving refactoring written by a sub-agent and run every check against it.

  benigncheck.py <name> <seed-dir>

The patch must apply to /repo's HEAD, build and pass the 142 tests. Every check is then run against the
patched scratch copy; any VIOLATION is a false alarm of the machinery to be corrected. Writes
seeded/<name>/{patch.diff, notes.md, meta.json} and selftest/benign/<name>.patch.
"""
import json
import os
import re
import shutil
import subprocess
import sys
import tempfile

VERIF = os.path.dirname(os.path.dirname(os.path.abspath(__file__)))
sys.path.insert(0, os.path.join(VERIF, "tools"))
import scratch  # noqa: E402

REPO = "/repo"
ALL = [f"C{i:02d}" for i in range(1, 19)]


def sh(cmd, cwd=None, env=None, timeout=3000):
    r = subprocess.run(cmd, shell=True, cwd=cwd, env=env, stdout=subprocess.PIPE, stderr=subprocess.STDOUT, text=True, errors="replace", timeout=timeout)
    return r.returncode, r.stdout


def main():
    name, seed = sys.argv[1], os.path.abspath(sys.argv[2])
    pos = [a for a in sys.argv[3:] if not a.startswith("--")]
    checks = pos[0].split(",") if pos else ALL
    skip_tests = "--skip-tests" in sys.argv
    d = tempfile.mkdtemp(prefix="xtbenign-")
    copy = os.path.join(d, "repo")
    meta = {"name": name, "kind": "benign refactoring (must not alarm)"}
    try:
        sh(f"git -C {REPO} archive HEAD | (mkdir -p {copy} && tar -x -C {copy})")
        rc, out = sh(f"git apply --whitespace=nowarn {os.path.join(seed, 'patch.diff')} 2>&1 || patch -p1 -s < {os.path.join(seed, 'patch.diff')}", cwd=copy)
        meta["patch_applies"] = rc == 0
        tgt = scratch.fresh_target() if not skip_tests else tempfile.mkdtemp(prefix="xtbt-")
        env = dict(os.environ, CARGO_NET_OFFLINE="true", CARGO_TARGET_DIR=tgt)
        if skip_tests:
            prev = json.load(open(os.path.join(VERIF, "seeded", name, "meta.json")))["tests"]
            passed, failed = prev["passed"], prev["failed"]
        else:
            rc, out = sh("cargo test --offline 2>&1 | grep -E '^test result|FAILED|^error' | head", cwd=copy, env=env)
            passed = sum(int(x) for x in re.findall(r"(\d+) passed", out))
            failed = sum(int(x) for x in re.findall(r"(\d+) failed", out))
        meta["tests"] = {"passed": passed, "failed": failed}
        res = {}
        alarms = []
        for c in checks:
            e = dict(os.environ, XT_REPO=copy, XT_EVIDENCE_DIR=os.path.join(d, "ev"), XT_SLOT="-benign")
            r = subprocess.run([os.path.join(VERIF, "check"), c], env=e, capture_output=True, text=True)
            fired = r.returncode != 0
            res[c] = {"rc": r.returncode}
            if fired:
                lines = [l for l in r.stdout.splitlines() if l.startswith("  rule ") or l.startswith("  at ")]
                res[c]["report"] = lines[:12]
                alarms.append(c)
        meta["checks"] = res
        meta["alarms"] = alarms
        meta["ran"] = ["git archive HEAD into a scratch copy; git apply patch.diff; cargo test --offline; ./check C01..C18 with XT_REPO=<scratch copy>"]
        out_dir = os.path.join(VERIF, "seeded", name)
        os.makedirs(out_dir, exist_ok=True)
        for f in ("patch.diff", "notes.md"):
            if os.path.exists(os.path.join(seed, f)) and os.path.abspath(seed) != os.path.abspath(out_dir):
                shutil.copy(os.path.join(seed, f), os.path.join(out_dir, f))
        with open(os.path.join(out_dir, "meta.json"), "w") as fh:
            json.dump(meta, fh, indent=1)
        if meta["patch_applies"] and passed == 142 and failed == 0:
            with open(os.path.join(VERIF, "selftest", "benign", f"{name}.patch"), "w") as fh:
                fh.write(f"# property: {','.join(ALL)}\n# note: behaviour-preserving refactoring written by an independent sub-agent (see seeded/{name}/)\n")
                fh.write(open(os.path.join(seed, "patch.diff")).read())
        print(json.dumps({k: meta[k] for k in ("name", "patch_applies", "tests", "alarms")}, indent=1))
        for c in alarms:
            print(c, "\n".join(res[c]["report"]))
        return 0
    finally:
        shutil.rmtree(d, ignore_errors=True)
        try:
            shutil.rmtree(tgt, ignore_errors=True)
        except NameError:
            pass


if __name__ == "__main__":
    sys.exit(main())
