#!/usr/bin/env python3
"""Re-run the checks against already confirmed seeded changes (seeded/<prefix>-Cxx) and refresh the
`checks_on_patched_tree` part of their meta.json. The confirmation (build, tests, demonstration) is not repeated:
the patch is the same; only the machinery changed.

  recheck_seeds.py <prefix> [--jobs N]
"""
import concurrent.futures
import json
import os
import re
import shutil
import subprocess
import sys
import tempfile

VERIF = os.path.dirname(os.path.dirname(os.path.abspath(__file__)))
REPO = "/repo"
ALL = [f"C{i:02d}" for i in range(1, 19)]


def one(name):
    d = os.path.join(VERIF, "seeded", name)
    meta_p = os.path.join(d, "meta.json")
    meta = json.load(open(meta_p))
    tmp = tempfile.mkdtemp(prefix="xtreseed-")
    copy = os.path.join(tmp, "repo")
    try:
        os.makedirs(copy)
        subprocess.run(f"git -C {REPO} archive HEAD | tar -x -C {copy}", shell=True, check=True)
        r = subprocess.run(f"git apply --whitespace=nowarn {os.path.join(d, 'patch.diff')} 2>&1 || patch -p1 -s < {os.path.join(d, 'patch.diff')}", shell=True, cwd=copy)
        if r.returncode != 0:
            return name, None
        det = {}
        for c in ALL:
            e = dict(os.environ, XT_REPO=copy, XT_EVIDENCE_DIR=os.path.join(tmp, "ev"), XT_SLOT="-reseed-" + name)
            r = subprocess.run([os.path.join(VERIF, "check"), c], env=e, capture_output=True, text=True)
            fired = r.returncode == 1 and f"VIOLATION property={c}" in r.stdout
            rules = sorted(set(re.findall(r"rule (R[0-9.]+) instance ([^:\n]+(?::[^:\n ]+)*)", r.stdout)))
            det[c] = {"fired": fired, "rules": [f"{a} {b}" for a, b in rules][:6]}
        meta["checks_on_patched_tree"] = det
        json.dump(meta, open(meta_p, "w"), indent=1)
        return name, det
    finally:
        shutil.rmtree(tmp, ignore_errors=True)


def main():
    prefix = sys.argv[1]
    jobs = int(sys.argv[sys.argv.index("--jobs") + 1]) if "--jobs" in sys.argv else 6
    names = sorted(n for n in os.listdir(os.path.join(VERIF, "seeded")) if n.startswith(prefix + "-C"))
    with concurrent.futures.ThreadPoolExecutor(jobs) as ex:
        for name, det in ex.map(one, names):
            if det is None:
                print(name, "PATCH DOES NOT APPLY")
                continue
            own = "C" + name.rsplit("-C", 1)[1]
            fired = [c for c, v in det.items() if v["fired"]]
            print(name, "own" if det[own]["fired"] else "OWN QUIET", fired, det[own]["rules"][:2])


if __name__ == "__main__":
    main()
