#!/usr/bin/env python3
"""Register confirmed sub-agent seeds (seeded/<prefix>-Cxx) as self-test violation patches.

  regseeds.py <prefix> [<round label>]     e.g. regseeds.py agent5 "round 7"

Each patch gets `# property: Cxx` and, when the seed's own property fired, `# expect: <first rule>`."""
import json
import os
import sys

VERIF = os.path.dirname(os.path.dirname(os.path.abspath(__file__)))


def main():
    prefix = sys.argv[1]
    label = sys.argv[2] if len(sys.argv) > 2 else ""
    for i in range(1, 19):
        d = os.path.join(VERIF, "seeded", f"{prefix}-C{i:02d}")
        if not os.path.isdir(d):
            continue
        m = json.load(open(os.path.join(d, "meta.json")))
        if not m.get("confirmed"):
            print(f"{prefix}-C{i:02d}: not confirmed, skipped")
            continue
        own = m["checks_on_patched_tree"].get(f"C{i:02d}", {})
        rules = own.get("rules") or []
        exp = rules[0].split()[0] if rules else ""
        notes = open(os.path.join(d, "notes.md")).read().strip().splitlines() if os.path.exists(os.path.join(d, "notes.md")) else []
        first = next((l.strip("# *-").strip() for l in notes if l.strip() and not l.startswith("#")), "")[:200]
        prop = f"C{i:02d}"
        extra_note = ""
        if not own.get("fired"):
            others = sorted(c for c, v in m["checks_on_patched_tree"].items() if v.get("fired"))
            if not others:
                print(f"{prefix}-C{i:02d}: no check fires (not decided): kept under seeded/ only, not registered as a self-test violation")
                continue
            prop = others[0]
            extra_note = f"(own property C{i:02d} is not decided for this change; registered under {prop}, which fires) "
        hdr = [f"# property: {prop}"]
        if exp:
            hdr.append(f"# expect: {exp}")
        hdr.append(f"# note: {extra_note}written by an independent sub-agent ({label}) from the property text alone; confirmed by its demo: {first}")
        out = os.path.join(VERIF, "selftest", "violations", f"seed-{prefix}-C{i:02d}.patch")
        open(out, "w").write("\n".join(hdr) + "\n" + open(os.path.join(d, "patch.diff")).read())
        print(f"{prefix}-C{i:02d}", "own fired" if own.get("fired") else "OWN PROPERTY QUIET", exp)


if __name__ == "__main__":
    main()
