#!/usr/bin/env python3
"""Regenerate /verif/MANIFEST.json from the registered rules (claimed = properties with rules)."""
import json
import os
import sys

HERE = os.path.dirname(os.path.abspath(__file__))
VERIF = os.path.dirname(HERE)
sys.path.insert(0, os.path.join(VERIF, "rules"))

import engine  # noqa: E402
import allrules  # noqa: E402,F401
import props  # noqa: E402

TECHNIQUE = {
    "C01": "MIR/HIR table extraction (visit_T->serialize_T type identity, def-use of payload), trait-impl exhaustiveness, resolved cargo feature graph cross-checked with ADT facts",
    "C02": "must-pass-through on MIR CFG (encoding detection gates the whole-text path) + sibling cross-check of slice/reader arms",
    "C03": "per-path framing obligations on MIR CFGs (dominance / post-dominance of literal writes), who-may-call, deny-list of reordering adaptors",
    "C04": "panic-edge inventory over MIR (Assert terminators + panicking callees): each edge is proved dead by a local argument (interval analysis with branch refinement, sub-slice length difference, min-with-len bounds) or must be within a reviewed multiset with re-verified dominating guards; use-once typestate; call-graph SCC budget check",
    "C05": "who-may-call (slurping APIs, in the library and in the CLI) + def-use of Take limits to constants + order of detection trials (straight-line or table-driven) + value-flow of the size-cap comparison + per-document emptying of the capture buffer + path-sensitive one-pull-per-read rule over every io::Read adapter, including iterator-fed ones (one recorded finding: the UTF-16/32 re-encoder, known_findings.txt)",
    "C06": "resolved cargo feature graph + ADT field cross-check (serde_json float_roundtrip); scalar type-identity tables of both transcoding paths (visit_T -> serialize_T)",
    "C07": "decision-table equivalence (HIR pattern table vs YAML 1.2.2 section 5.2), interval analysis on MIR for from_u32_unchecked, must-pass-through for encoding detection",
    "C08": "interprocedural path-sensitive dominance over inlined MIR (guard/typestate of the TOML sink), def-use of written bytes",
    "C09": "typestate via field-projection who-may-access + dominance of rewind, def-use of trial arguments (inline or table-driven driver), error-provenance classification per Err return path, error-kind wrapping of the chunker's parser poll, input-kind independence of trial verdicts (one recorded finding)",
    "C10": "order of trial calls (dominance or table order), HIR pattern table vs rmp::Marker ADT variants, path-sensitive edge dominance of the TOML size cap by the reader arm",
    "C11": "field-write invariant over Cell setters, constant propagation of the ErrorSource argument at each synthetic error site, Display template/argument check",
    "C12": "unused-Result dataflow over all MIR call sites (reviewed exceptions), def-use of the stashed reader error, return-value pass-through of flush layers",
    "C13": "rules over the inlined supergraph of main (context-sensitive, variant-aware failure continuations): constant exit codes, must-pass-through of stderr writes, who-may-call stdout, HIR option tables vs doc/xt.1",
    "C14": "def-use of the `from` operand into translate_* calls (option-fallback idioms), HIR extension table vs manual, bool-guard dominance for stdin",
    "C15": "must-pass-through on the inlined supergraph of main: translate_* success continuation -> flush before the next translate / return / exit; return-value pass-through of flush layers",
    "C16": "per-method def-use (inner same-named call -> broken-pipe check -> return), CFG of the check (BrokenPipe edge diverges into signal+raise), type containment of StdoutLock",
    "C17": "unsafe-operation inventory over MIR/HIR, guard dominance for copy_nonoverlapping and raw derefs, into_raw/from_raw pairing and order, interval analysis for unchecked chars",
    "C18": "constant propagation of depth limits to every set_max_depth site, construct-then-configure typestate on rmp_serde::Deserializer locals, budget recurrence of the size calculator, feature graph",
}

LEVEL_NOTE = (
    "Trusted: rustc's type checking/MIR construction, the fact driver, and the dependency contracts listed in the evidence "
    "file's trusted_base (confirmed by reading the locked crate versions). Decides the structural necessary conditions named in "
    "DESIGN.md section 4 for this property, exhaustively over the analysed lib+bin crates (unix cfg); the behavioural remainder "
    "listed there under 'Not decided' is not claimed."
)


def main():
    pjs = [json.loads(l) for l in open(os.path.join(VERIF, "properties.jsonl"))]
    claimed = sorted(engine.PROP_RULES.keys())
    checks = []
    for pid in claimed:
        checks.append(
            {
                "property_id": pid,
                "quick_cmd": f"./check {pid} --tier quick",
                "thorough_cmd": f"./check {pid} --tier thorough",
                "evidence_file": f"/verif/evidence/{pid}.json",
                "replay_cmd_template": f"./check {pid} --replay {{path}}",
                "engine": "xtfacts+rules",
                "level_claimed": {
                    "category": "other",
                    "text": "Static analysis (exhaustive over the program's paths / call sites / table rows, not over inputs): "
                    + props.META[pid]["explanation"]
                    + " Not decided: "
                    + props.META[pid]["not_decided"]
                    + ".",
                    "design_ref": f"DESIGN.md section 4, {pid}",
                },
                "level_note": LEVEL_NOTE,
                "technique": "static analysis: " + TECHNIQUE[pid],
            }
        )
    na = []
    reasons = {}
    nap = os.path.join(VERIF, "tables", "not_applicable.json")
    if os.path.exists(nap):
        reasons = json.load(open(nap))
    for p in pjs:
        if p["id"] not in claimed:
            na.append({"property_id": p["id"], "reason": reasons.get(p["id"], "check not built yet (planned: static rules in DESIGN.md section 4)")})
    m = {
        "version": 1,
        "setup_cmd": "./setup.sh",
        "hooks": {
            "guard": "xt_verif",
            "enable": "none needed: the analysis reads the program as built (RUSTFLAGS=--cfg xt_verif is reserved; no guarded source exists in /repo)",
            "baseline_off_cmd": "cd /repo && cargo test --workspace --no-fail-fast --offline",
            "source_commits": [],
            "add_only": True,
        },
        "engines": [
            {
                "name": "xtfacts+rules",
                "path": "/verif/engine/xtfacts (rustc_private fact driver) + /verif/rules (python rule engine)",
                "serves_properties": claimed,
                "kind_free_text": "static analysis over type-checked HIR/MIR with resolved callees, resolved feature graph; no execution of xt",
            }
        ],
        "checks": checks,
        "notes": "All checks are static: they rebuild facts from /repo's working tree with `cargo +nightly check` under a rustc_private "
        "driver and evaluate rules over them. known_findings.txt lists genuine recorded defects (known:) and repaired ones (fixed:). "
        "selftest/ holds seeded-violation and benign patches used to validate the checker (thorough tier, verdict-neutral).",
        "not_applicable": na,
    }
    fixes = os.path.join(VERIF, "tables", "fix_commits.json")
    if os.path.exists(fixes):
        m["notes"] += " fix: commits in /repo: " + ", ".join(json.load(open(fixes)))
    with open(os.path.join(VERIF, "MANIFEST.json"), "w") as fh:
        json.dump(m, fh, indent=1)
    print("claimed:", claimed, "not_applicable:", [x["property_id"] for x in na])


if __name__ == "__main__":
    main()
