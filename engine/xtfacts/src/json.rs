//! Minimal JSON value + writer (the driver has no crates.io dependencies).

use std::fmt::Write;

#[derive(Clone, Debug)]
pub enum J {
	Null,
	Bool(bool),
	Int(i128),
	Str(String),
	Arr(Vec<J>),
	Obj(Vec<(String, J)>),
}

impl J {
	pub fn obj() -> J {
		J::Obj(vec![])
	}
	pub fn set(mut self, k: &str, v: J) -> J {
		if let J::Obj(ref mut m) = self {
			m.push((k.to_string(), v));
		}
		self
	}
	pub fn put(&mut self, k: &str, v: J) {
		if let J::Obj(ref mut m) = self {
			m.push((k.to_string(), v));
		}
	}
	pub fn s<T: Into<String>>(t: T) -> J {
		J::Str(t.into())
	}
	pub fn write(&self, out: &mut String) {
		match self {
			J::Null => out.push_str("null"),
			J::Bool(b) => out.push_str(if *b { "true" } else { "false" }),
			J::Int(i) => {
				// JSON numbers beyond 2^53 lose precision in some readers; python handles big ints.
				let _ = write!(out, "{i}");
			}
			J::Str(s) => write_str(s, out),
			J::Arr(a) => {
				out.push('[');
				for (i, v) in a.iter().enumerate() {
					if i > 0 {
						out.push(',');
					}
					v.write(out);
				}
				out.push(']');
			}
			J::Obj(m) => {
				out.push('{');
				for (i, (k, v)) in m.iter().enumerate() {
					if i > 0 {
						out.push(',');
					}
					write_str(k, out);
					out.push(':');
					v.write(out);
				}
				out.push('}');
			}
		}
	}
}

fn write_str(s: &str, out: &mut String) {
	out.push('"');
	for c in s.chars() {
		match c {
			'"' => out.push_str("\\\""),
			'\\' => out.push_str("\\\\"),
			'\n' => out.push_str("\\n"),
			'\r' => out.push_str("\\r"),
			'\t' => out.push_str("\\t"),
			c if (c as u32) < 0x20 => {
				let _ = write!(out, "\\u{:04x}", c as u32);
			}
			c => out.push(c),
		}
	}
	out.push('"');
}
