//! MIR facts: bodies, CFG, statements, terminators with resolved callees,
//! evaluated constants, and the ADTs mentioned by the analysed bodies.

use crate::json::J;
use rustc_hir::def::DefKind;
use rustc_hir::def_id::{DefId, LocalDefId};
use rustc_middle::mir::{
	self, AggregateKind, AssertKind, BinOp, Body, Const, ConstOperand, ConstValue, NonDivergingIntrinsic,
	Operand, Place, PlaceTy, ProjectionElem, Rvalue, StatementKind, TerminatorKind,
};
use rustc_middle::ty::{self, Instance, Ty, TyCtxt, TypeVisitableExt, TypingEnv};
use rustc_span::Span;
use std::collections::HashSet;

pub fn path(tcx: TyCtxt<'_>, did: DefId) -> String {
	ty::print::with_no_trimmed_paths!(tcx.def_path_str(did))
}

pub fn ty_str(ty: Ty<'_>) -> String {
	ty::print::with_no_trimmed_paths!(format!("{ty}"))
}

pub fn span_j(tcx: TyCtxt<'_>, span: Span) -> J {
	let sm = tcx.sess.source_map();
	let exp = span.from_expansion();
	let cs = span.source_callsite();
	let lo = sm.lookup_char_pos(cs.lo());
	let hi = sm.lookup_char_pos(cs.hi());
	let file = match &lo.file.name {
		rustc_span::FileName::Real(r) => match r.local_path() {
			Some(p) => p.display().to_string(),
			None => format!("{:?}", lo.file.name),
		},
		other => format!("{other:?}"),
	};
	J::obj()
		.set("file", J::s(file))
		.set("line", J::Int(lo.line as i128))
		.set("col", J::Int(lo.col.0 as i128 + 1))
		.set("end_line", J::Int(hi.line as i128))
		.set("exp", J::Bool(exp))
}

pub struct AdtCollector {
	seen: HashSet<DefId>,
	order: Vec<DefId>,
}

const ADT_CRATES: &[&str] = &[
	"xt", "xt_controls", "toml", "serde_json", "rmp", "rmp_serde", "serde_yaml", "unsafe_libyaml",
];

impl AdtCollector {
	pub fn new() -> Self {
		AdtCollector { seen: HashSet::new(), order: vec![] }
	}

	pub fn visit_ty<'tcx>(&mut self, ty: Ty<'tcx>) {
		for arg in ty.walk() {
			if let Some(t) = arg.as_type() {
				if let ty::Adt(def, _) = t.kind() {
					if self.seen.insert(def.did()) {
						self.order.push(def.did());
					}
				}
			}
		}
	}

	pub fn finish<'tcx>(mut self, tcx: TyCtxt<'tcx>) -> J {
		let mut out = vec![];
		let mut next = 0usize;
		let mut rounds = 0;
		loop {
			rounds += 1;
			let todo: Vec<DefId> = self.order[next..].to_vec();
			next = self.order.len();
			if todo.is_empty() || rounds > 4 || next > 800 {
				break;
			}
			for did in todo {
				let krate = tcx.crate_name(did.krate).to_string();
				let adt = tcx.adt_def(did);
				// fieldless enums of the standard library (io::ErrorKind, cmp::Ordering, ...) are kept too:
				// `matches!`/`match` on them lowers to a discriminant switch whose values need names
				let plain_std_enum = matches!(krate.as_str(), "std" | "core" | "alloc")
					&& adt.is_enum()
					&& adt.variants().iter().all(|v| v.fields.is_empty());
				if !ADT_CRATES.contains(&krate.as_str()) && !plain_std_enum {
					continue;
				}
				let mut o = J::obj();
				o.put("path", J::s(path(tcx, did)));
				o.put("crate", J::s(krate));
				o.put(
					"kind",
					J::s(if adt.is_enum() {
						"enum"
					} else if adt.is_union() {
						"union"
					} else {
						"struct"
					}),
				);
				let mut variants = vec![];
				for (vidx, v) in adt.variants().iter_enumerated() {
					let mut vo = J::obj();
					vo.put("name", J::s(v.name.to_string()));
					vo.put("idx", J::Int(vidx.as_u32() as i128));
					if adt.is_enum() {
						let d = adt.discriminant_for_variant(tcx, vidx);
						vo.put("discr", J::Int(d.val as i128));
					}
					let mut fields = vec![];
					for f in v.fields.iter() {
						let fty = tcx.type_of(f.did).instantiate_identity().skip_norm_wip();
						self.visit_ty(fty);
						fields.push(
							J::obj()
								.set("name", J::s(f.name.to_string()))
								.set("ty", J::s(ty_str(fty))),
						);
					}
					vo.put("fields", J::Arr(fields));
					variants.push(vo);
				}
				o.put("variants", J::Arr(variants));
				out.push(o);
			}
		}
		J::Arr(out)
	}
}

struct Cx<'a, 'tcx> {
	tcx: TyCtxt<'tcx>,
	body: &'a Body<'tcx>,
	did: DefId,
	tenv: TypingEnv<'tcx>,
}

pub fn body_facts<'tcx>(tcx: TyCtxt<'tcx>, ldid: LocalDefId, adts: &mut AdtCollector) -> J {
	ty::print::with_no_trimmed_paths!(body_facts_inner(tcx, ldid, adts))
}

fn body_facts_inner<'tcx>(tcx: TyCtxt<'tcx>, ldid: LocalDefId, adts: &mut AdtCollector) -> J {
	let did = ldid.to_def_id();
	let dk = tcx.def_kind(did);
	let is_item_const = matches!(dk, DefKind::Const { .. } | DefKind::Static { .. });
	let body: &Body<'tcx> = if is_item_const { tcx.mir_for_ctfe(did) } else { tcx.optimized_mir(did) };
	let cx = Cx { tcx, body, did, tenv: TypingEnv::post_analysis(tcx, did) };

	let mut o = J::obj();
	o.put("id", J::s(path(tcx, did)));
	o.put("def_kind", J::s(format!("{dk:?}")));
	o.put("name", J::s(tcx.opt_item_name(did).map(|s| s.to_string()).unwrap_or_default()));
	o.put("span", span_j(tcx, body.span));
	o.put("from_expansion", J::Bool(tcx.def_span(did).from_expansion()));
	if matches!(dk, DefKind::Closure) {
		o.put("parent", J::s(path(tcx, tcx.parent(did))));
		o.put("root", J::s(path(tcx, tcx.typeck_root_def_id(did))));
		let ups: Vec<J> = tcx
			.closure_captures(ldid)
			.iter()
			.map(|c| J::s(c.to_symbol().to_string()))
			.collect();
		o.put("upvars", J::Arr(ups));
	} else if is_item_const {
		o.put("unsafe_fn", J::Bool(false));
		o.put("ret_ty", J::s(ty_str(body.local_decls[mir::RETURN_PLACE].ty)));
	} else {
		o.put("vis", J::s(format!("{:?}", tcx.visibility(did))));
		let sig = tcx.fn_sig(did).instantiate_identity().skip_norm_wip().skip_binder();
		o.put("unsafe_fn", J::Bool(!sig.safety().is_safe()));
		o.put("ret_ty", J::s(ty_str(sig.output())));
		o.put("is_const_fn", J::Bool(tcx.is_const_fn(did)));
	}
	// impl context (for closures: of the root fn)
	let root = tcx.typeck_root_def_id(did);
	if let Some(impl_did) = tcx.impl_of_assoc(root) {
		let self_ty = tcx.type_of(impl_did).instantiate_identity().skip_norm_wip();
		o.put("impl_self_ty", J::s(ty_str(self_ty)));
		if let ty::Adt(def, _) = self_ty.peel_refs().kind() {
			o.put("impl_self_adt", J::s(path(tcx, def.did())));
		}
		if let Some(tr) = tcx.impl_opt_trait_ref(impl_did) {
			let tr = tr.instantiate_identity().skip_norm_wip();
			o.put("impl_trait", J::s(path(tcx, tr.def_id)));
			o.put("impl_trait_ref", J::s(format!("{tr}")));
		}
	}
	o.put("arg_count", J::Int(body.arg_count as i128));

	// locals
	let mut names: Vec<Option<String>> = vec![None; body.local_decls.len()];
	let mut dbg = vec![];
	for vdi in &body.var_debug_info {
		match &vdi.value {
			mir::VarDebugInfoContents::Place(p) => {
				if p.projection.is_empty() {
					names[p.local.as_usize()] = Some(vdi.name.to_string());
				}
				dbg.push(J::obj().set("name", J::s(vdi.name.to_string())).set("place", cx.place_j(p)));
			}
			mir::VarDebugInfoContents::Const(c) => {
				dbg.push(J::obj().set("name", J::s(vdi.name.to_string())).set("const", cx.const_j(c)));
			}
		}
	}
	let mut locals = vec![];
	for (l, decl) in body.local_decls.iter_enumerated() {
		adts.visit_ty(decl.ty);
		let mut lo = J::obj();
		lo.put("ty", J::s(ty_str(decl.ty)));
		if let Some(n) = &names[l.as_usize()] {
			lo.put("name", J::s(n.clone()));
		}
		lo.put("mut", J::Bool(decl.mutability.is_mut()));
		lo.put("line", J::Int(line_of(tcx, decl.source_info.span)));
		locals.push(lo);
	}
	o.put("locals", J::Arr(locals));
	o.put("debug", J::Arr(dbg));

	// blocks
	let mut blocks = vec![];
	for (_bb, data) in body.basic_blocks.iter_enumerated() {
		let mut stmts = vec![];
		for st in &data.statements {
			if let Some(s) = cx.stmt_j(st) {
				stmts.push(s);
			}
		}
		let mut b = J::obj();
		b.put("stmts", J::Arr(stmts));
		b.put("cleanup", J::Bool(data.is_cleanup));
		b.put("term", cx.term_j(data.terminator()));
		blocks.push(b);
	}
	o.put("blocks", J::Arr(blocks));
	o
}

fn line_of(tcx: TyCtxt<'_>, span: Span) -> i128 {
	let sm = tcx.sess.source_map();
	sm.lookup_char_pos(span.source_callsite().lo()).line as i128
}

impl<'a, 'tcx> Cx<'a, 'tcx> {
	fn place_j(&self, place: &Place<'tcx>) -> J {
		let tcx = self.tcx;
		let mut pty = PlaceTy::from_ty(self.body.local_decls[place.local].ty);
		let mut pr = vec![];
		for elem in place.projection.iter() {
			let e = match elem {
				ProjectionElem::Deref => J::obj()
					.set("k", J::s("deref"))
					.set("raw", J::Bool(pty.ty.is_raw_ptr()))
					.set("of", J::s(ty_str(pty.ty))),
				ProjectionElem::Field(f, fty) => {
					let name = match pty.ty.kind() {
						ty::Adt(adt, _) => {
							let v = pty.variant_index.unwrap_or(rustc_abi::FIRST_VARIANT);
							adt.variant(v).fields[f].name.to_string()
						}
						ty::Closure(cdid, _) => {
							if let Some(l) = cdid.as_local() {
								tcx.closure_captures(l)
									.get(f.as_usize())
									.map(|c| c.to_symbol().to_string())
									.unwrap_or_else(|| f.as_usize().to_string())
							} else {
								f.as_usize().to_string()
							}
						}
						_ => f.as_usize().to_string(),
					};
					let mut fo = J::obj()
						.set("k", J::s("field"))
						.set("i", J::Int(f.as_usize() as i128))
						.set("name", J::s(name))
						.set("ty", J::s(ty_str(fty)));
					if let ty::Adt(adt, _) = pty.ty.kind() {
						fo.put("adt", J::s(path(tcx, adt.did())));
					}
					fo
				}
				ProjectionElem::Downcast(name, vidx) => J::obj()
					.set("k", J::s("downcast"))
					.set("variant", J::s(name.map(|s| s.to_string()).unwrap_or_default()))
					.set("idx", J::Int(vidx.as_u32() as i128)),
				ProjectionElem::Index(l) => {
					J::obj().set("k", J::s("index")).set("local", J::Int(l.as_usize() as i128))
				}
				ProjectionElem::ConstantIndex { offset, min_length, from_end } => J::obj()
					.set("k", J::s("constindex"))
					.set("offset", J::Int(offset as i128))
					.set("min_length", J::Int(min_length as i128))
					.set("from_end", J::Bool(from_end)),
				ProjectionElem::Subslice { from, to, from_end } => J::obj()
					.set("k", J::s("subslice"))
					.set("from", J::Int(from as i128))
					.set("to", J::Int(to as i128))
					.set("from_end", J::Bool(from_end)),
				ProjectionElem::OpaqueCast(t) => J::obj().set("k", J::s("opaquecast")).set("ty", J::s(ty_str(t))),
				ProjectionElem::UnwrapUnsafeBinder(t) => {
					J::obj().set("k", J::s("unwrapbinder")).set("ty", J::s(ty_str(t)))
				}
			};
			pr.push(e);
			pty = pty.projection_ty(tcx, elem);
		}
		J::obj()
			.set("l", J::Int(place.local.as_usize() as i128))
			.set("pr", J::Arr(pr))
			.set("ty", J::s(ty_str(pty.ty)))
	}

	fn operand_j(&self, op: &Operand<'tcx>) -> J {
		match op {
			Operand::Copy(p) => J::obj().set("k", J::s("copy")).set("p", self.place_j(p)),
			Operand::Move(p) => J::obj().set("k", J::s("move")).set("p", self.place_j(p)),
			Operand::Constant(c) => self.const_j(c),
			other => J::obj().set("k", J::s("other")).set("dbg", J::s(format!("{other:?}"))),
		}
	}

	fn fn_item_j(&self, fdid: DefId, args: ty::GenericArgsRef<'tcx>) -> J {
		let tcx = self.tcx;
		let mut o = J::obj();
		o.put("k", J::s("fn"));
		o.put("def", J::s(path(tcx, fdid)));
		o.put("name", J::s(tcx.opt_item_name(fdid).map(|s| s.to_string()).unwrap_or_default()));
		o.put("crate", J::s(tcx.crate_name(fdid.krate).to_string()));
		o.put("full", J::s(tcx.def_path_str_with_args(fdid, args)));
		let mut ga = vec![];
		let mut closures = vec![];
		for a in args.iter() {
			ga.push(J::s(format!("{a}")));
			if let Some(t) = a.as_type() {
				for inner in t.walk() {
					if let Some(it) = inner.as_type() {
						if let ty::Closure(cd, _) = it.kind() {
							closures.push(J::s(path(tcx, *cd)));
						}
					}
				}
			}
		}
		o.put("args", J::Arr(ga));
		if !closures.is_empty() {
			o.put("closures", J::Arr(closures));
		}
		if let Some(tr) = tcx.trait_of_assoc(fdid) {
			o.put("trait", J::s(path(tcx, tr)));
			if args.len() > 0 {
				if let Some(t) = args[0].as_type() {
					o.put("self_ty", J::s(ty_str(t)));
				}
			}
		}
		if let Some(im) = tcx.impl_of_assoc(fdid) {
			let st = tcx.type_of(im).instantiate_identity().skip_norm_wip();
			o.put("impl_self_ty", J::s(ty_str(st)));
			if let ty::Adt(def, _) = st.kind() {
				o.put("impl_self_adt", J::s(path(tcx, def.did())));
			}
			if let Some(tr) = tcx.impl_opt_trait_ref(im) {
				o.put("impl_trait", J::s(path(tcx, tr.skip_binder().def_id)));
			}
		}
		if matches!(tcx.def_kind(fdid), DefKind::Fn | DefKind::AssocFn) {
			let sig = tcx.fn_sig(fdid).skip_binder().skip_binder();
			o.put("unsafe", J::Bool(!sig.safety().is_safe()));
			o.put("diverges", J::Bool(sig.output().is_never()));
			if let Ok(Some(inst)) = Instance::try_resolve(tcx, self.tenv, fdid, args) {
				let rd = inst.def_id();
				o.put("resolved", J::s(path(tcx, rd)));
				o.put("resolved_full", J::s(tcx.def_path_str_with_args(rd, inst.args)));
				o.put(
					"resolved_kind",
					J::s(match inst.def {
						ty::InstanceKind::Item(_) => "item".to_string(),
						ty::InstanceKind::Virtual(..) => "virtual".to_string(),
						ty::InstanceKind::Intrinsic(_) => "intrinsic".to_string(),
						ty::InstanceKind::ClosureOnceShim { .. } => "closure_once_shim".to_string(),
						ty::InstanceKind::FnPtrShim(..) => "fnptr_shim".to_string(),
						ty::InstanceKind::DropGlue(..) => "drop_glue".to_string(),
						ty::InstanceKind::CloneShim(..) => "clone_shim".to_string(),
						ref k => format!("{k:?}").chars().take(40).collect(),
					}),
				);
				if let Some(im) = tcx.impl_of_assoc(rd) {
					let st = tcx.type_of(im).instantiate_identity().skip_norm_wip();
					o.put("resolved_impl_self_ty", J::s(ty_str(st)));
				}
			}
		}
		o.put("local", J::Bool(fdid.is_local()));
		o
	}

	fn const_j(&self, c: &ConstOperand<'tcx>) -> J {
		let tcx = self.tcx;
		let ty = c.const_.ty();
		if let ty::FnDef(fdid, args) = ty.kind() {
			return self.fn_item_j(*fdid, args);
		}
		let mut o = J::obj();
		o.put("k", J::s("const"));
		o.put("ty", J::s(ty_str(ty)));
		let val: Option<ConstValue> = match c.const_ {
			Const::Val(v, _) => Some(v),
			Const::Ty(_, tc) => match tc.kind() {
				ty::ConstKind::Value(cv) => Some(tcx.valtree_to_const_val(cv)),
				ty::ConstKind::Param(p) => {
					o.put("param", J::s(p.name.to_string()));
					None
				}
				_ => None,
			},
			Const::Unevaluated(u, _) => {
				o.put("def", J::s(path(tcx, u.def)));
				if let Some(p) = u.promoted {
					o.put("promoted", J::Int(p.as_usize() as i128));
				}
				if ty.has_non_region_param() {
					None
				} else {
					tcx.const_eval_resolve(self.tenv, u, c.span).ok()
				}
			}
		};
		if let Some(v) = val {
			value_j(tcx, v, ty, &mut o);
		}
		o
	}

	fn rvalue_j(&self, rv: &Rvalue<'tcx>) -> J {
		let tcx = self.tcx;
		match rv {
			Rvalue::Use(op, _) => J::obj().set("k", J::s("use")).set("op", self.operand_j(op)),
			Rvalue::Repeat(op, n) => J::obj()
				.set("k", J::s("repeat"))
				.set("op", self.operand_j(op))
				.set("n", J::s(format!("{n}"))),
			Rvalue::Ref(_, bk, p) => J::obj()
				.set("k", J::s("ref"))
				.set("mut", J::Bool(matches!(bk, mir::BorrowKind::Mut { .. })))
				.set("p", self.place_j(p)),
			Rvalue::RawPtr(kind, p) => J::obj()
				.set("k", J::s("rawptr"))
				.set("mut", J::Bool(matches!(kind, mir::RawPtrKind::Mut)))
				.set("p", self.place_j(p)),
			Rvalue::Cast(ck, op, t) => J::obj()
				.set("k", J::s("cast"))
				.set("cast", J::s(format!("{ck:?}")))
				.set("op", self.operand_j(op))
				.set("from_ty", J::s(ty_str(op.ty(self.body, tcx))))
				.set("ty", J::s(ty_str(*t))),
			Rvalue::BinaryOp(op, ab) => J::obj()
				.set("k", J::s("binop"))
				.set("op", J::s(format!("{op:?}")))
				.set("a", self.operand_j(&ab.0))
				.set("b", self.operand_j(&ab.1)),
			Rvalue::UnaryOp(op, a) => J::obj()
				.set("k", J::s("unop"))
				.set("op", J::s(format!("{op:?}")))
				.set("a", self.operand_j(a)),
			Rvalue::Discriminant(p) => J::obj().set("k", J::s("discr")).set("p", self.place_j(p)),
			Rvalue::Aggregate(kind, ops) => {
				let mut o = J::obj().set("k", J::s("aggregate"));
				match &**kind {
					AggregateKind::Array(t) => {
						o.put("agg", J::s("array"));
						o.put("elem_ty", J::s(ty_str(*t)));
					}
					AggregateKind::Tuple => o.put("agg", J::s("tuple")),
					AggregateKind::Adt(adid, vidx, _args, _, _) => {
						let adt = tcx.adt_def(*adid);
						o.put("agg", J::s("adt"));
						o.put("adt", J::s(path(tcx, *adid)));
						o.put("variant", J::s(adt.variant(*vidx).name.to_string()));
						o.put("variant_idx", J::Int(vidx.as_u32() as i128));
						let fnames: Vec<J> =
							adt.variant(*vidx).fields.iter().map(|f| J::s(f.name.to_string())).collect();
						o.put("fields", J::Arr(fnames));
					}
					AggregateKind::Closure(cd, _) => {
						o.put("agg", J::s("closure"));
						o.put("closure", J::s(path(tcx, *cd)));
					}
					AggregateKind::RawPtr(t, _) => {
						o.put("agg", J::s("rawptr"));
						o.put("elem_ty", J::s(ty_str(*t)));
					}
					other => {
						o.put("agg", J::s(format!("{other:?}")));
					}
				}
				o.put("ops", J::Arr(ops.iter().map(|x| self.operand_j(x)).collect()));
				o
			}
			Rvalue::CopyForDeref(p) => J::obj().set("k", J::s("copyforderef")).set("p", self.place_j(p)),
			Rvalue::ThreadLocalRef(d) => J::obj().set("k", J::s("tlref")).set("def", J::s(path(tcx, *d))),
			other => J::obj().set("k", J::s("other")).set("dbg", J::s(format!("{other:?}"))),
		}
	}

	fn stmt_j(&self, st: &mir::Statement<'tcx>) -> Option<J> {
		let tcx = self.tcx;
		let span = st.source_info.span;
		let base = |k: &str| {
			J::obj()
				.set("k", J::s(k))
				.set("line", J::Int(line_of(tcx, span)))
				.set("exp", J::Bool(span.from_expansion()))
		};
		match &st.kind {
			StatementKind::Assign(b) => {
				let (p, rv) = &**b;
				Some(base("assign").set("p", self.place_j(p)).set("rv", self.rvalue_j(rv)))
			}
			StatementKind::SetDiscriminant { place, variant_index } => Some(
				base("setdiscr")
					.set("p", self.place_j(place))
					.set("idx", J::Int(variant_index.as_u32() as i128)),
			),
			StatementKind::Intrinsic(i) => match &**i {
				NonDivergingIntrinsic::Assume(op) => Some(base("assume").set("op", self.operand_j(op))),
				NonDivergingIntrinsic::CopyNonOverlapping(c) => Some(
					base("copy_nonoverlapping")
						.set("src", self.operand_j(&c.src))
						.set("dst", self.operand_j(&c.dst))
						.set("count", self.operand_j(&c.count)),
				),
			},
			_ => None,
		}
	}

	fn term_j(&self, t: &mir::Terminator<'tcx>) -> J {
		let tcx = self.tcx;
		let span = t.source_info.span;
		let base = |k: &str| {
			J::obj()
				.set("k", J::s(k))
				.set("line", J::Int(line_of(tcx, span)))
				.set("exp", J::Bool(span.from_expansion()))
		};
		let bbj = |b: mir::BasicBlock| J::Int(b.as_usize() as i128);
		match &t.kind {
			TerminatorKind::Goto { target } => base("goto").set("target", bbj(*target)),
			TerminatorKind::SwitchInt { discr, targets } => {
				let mut ts = vec![];
				for (v, b) in targets.iter() {
					ts.push(J::Arr(vec![J::Int(v as i128), bbj(b)]));
				}
				base("switch")
					.set("discr", self.operand_j(discr))
					.set("discr_ty", J::s(ty_str(discr.ty(self.body, tcx))))
					.set("targets", J::Arr(ts))
					.set("otherwise", bbj(targets.otherwise()))
			}
			TerminatorKind::Return => base("return"),
			TerminatorKind::Unreachable => base("unreachable"),
			TerminatorKind::UnwindResume => base("resume"),
			TerminatorKind::UnwindTerminate(_) => base("terminate"),
			TerminatorKind::Drop { place, target, .. } => {
				base("drop").set("p", self.place_j(place)).set("target", bbj(*target))
			}
			TerminatorKind::Call { func, args, destination, target, unwind, fn_span, .. } => {
				let mut o = base("call");
				o.put("func", self.operand_j(func));
				o.put("args", J::Arr(args.iter().map(|a| self.operand_j(&a.node)).collect()));
				o.put("dest", self.place_j(destination));
				o.put("target", target.map(bbj).unwrap_or(J::Null));
				o.put(
					"unwind",
					match unwind {
						mir::UnwindAction::Cleanup(b) => bbj(*b),
						other => J::s(format!("{other:?}")),
					},
				);
				o.put("fn_line", J::Int(line_of(tcx, *fn_span)));
				o.put("span", span_j(tcx, span));
				o
			}
			TerminatorKind::Assert { cond, expected, msg, target, .. } => {
				let kind = match &**msg {
					AssertKind::BoundsCheck { .. } => "bounds".to_string(),
					AssertKind::Overflow(op, _, _) => format!("overflow:{}", binop_name(*op)),
					AssertKind::OverflowNeg(_) => "overflow:Neg".to_string(),
					AssertKind::DivisionByZero(_) => "divzero".to_string(),
					AssertKind::RemainderByZero(_) => "remzero".to_string(),
					AssertKind::MisalignedPointerDereference { .. } => "misaligned".to_string(),
					AssertKind::NullPointerDereference => "nullptr".to_string(),
					other => format!("{other:?}").chars().take(40).collect(),
				};
				let mut ops = vec![];
				match &**msg {
					AssertKind::BoundsCheck { len, index } => {
						ops.push(self.operand_j(len));
						ops.push(self.operand_j(index));
					}
					AssertKind::Overflow(_, a, b) => {
						ops.push(self.operand_j(a));
						ops.push(self.operand_j(b));
					}
					_ => {}
				}
				base("assert")
					.set("cond", self.operand_j(cond))
					.set("expected", J::Bool(*expected))
					.set("msg", J::s(kind))
					.set("ops", J::Arr(ops))
					.set("target", bbj(*target))
					.set("span", span_j(tcx, span))
			}
			TerminatorKind::FalseEdge { real_target, .. } => base("goto").set("target", bbj(*real_target)),
			TerminatorKind::FalseUnwind { real_target, .. } => base("goto").set("target", bbj(*real_target)),
			other => base("other").set("dbg", J::s(format!("{other:?}").chars().take(200).collect::<String>())),
		}
	}
}

fn binop_name(op: BinOp) -> String {
	format!("{op:?}")
}

pub fn value_j<'tcx>(tcx: TyCtxt<'tcx>, v: ConstValue, ty: Ty<'tcx>, o: &mut J) {
	match v {
		ConstValue::ZeroSized => o.put("zst", J::Bool(true)),
		ConstValue::Scalar(mir::interpret::Scalar::Int(i)) => {
			let size = i.size();
			match ty.kind() {
				ty::Bool => o.put("v", J::Bool(i.to_bits(size) != 0)),
				ty::Int(_) => o.put("v", J::Int(i.to_int(size))),
				ty::Uint(_) | ty::Char => o.put("v", J::Int(i.to_uint(size) as i128)),
				ty::Float(_) => {
					o.put("bits", J::Int(i.to_uint(size) as i128));
				}
				ty::Adt(adt, _) if adt.is_enum() => {
					let bits = i.to_uint(size);
					o.put("v", J::Int(bits as i128));
					for (vidx, d) in adt.discriminants(tcx) {
						// truncate discr to size for comparison
						let mask = if size.bits() >= 128 { u128::MAX } else { (1u128 << size.bits()) - 1 };
						if d.val & mask == bits {
							o.put("variant", J::s(adt.variant(vidx).name.to_string()));
							break;
						}
					}
				}
				_ => o.put("v", J::Int(i.to_uint(size) as i128)),
			}
		}
		ConstValue::Scalar(mir::interpret::Scalar::Ptr(ptr, _)) => {
			if let ty::Ref(_, inner, _) = ty.kind() {
				if matches!(inner.kind(), ty::Array(..) | ty::Tuple(..)) {
					let (prov, off) = ptr.into_raw_parts();
					if let Some(d) = decode_mem(tcx, prov.alloc_id(), off.bytes_usize(), *inner, None, 0) {
						o.put("decoded", d);
					}
				}
				let is_bytes = match inner.kind() {
					ty::Array(e, _) | ty::Slice(e) => matches!(e.kind(), ty::Uint(ty::UintTy::U8)),
					ty::Str => true,
					_ => false,
				};
				let is_enum_or_int = match inner.kind() {
					ty::Adt(adt, _) => adt.is_enum(),
					ty::Int(_) | ty::Uint(_) | ty::Bool | ty::Char => true,
					_ => false,
				};
				if is_enum_or_int {
					let (prov, off) = ptr.into_raw_parts();
					if let Some(rustc_middle::mir::interpret::GlobalAlloc::Memory(alloc)) =
						tcx.try_get_global_alloc(prov.alloc_id())
					{
						let a = alloc.inner();
						let start = off.bytes_usize();
						if start < a.len() && a.len() - start <= 16 && a.provenance().ptrs().is_empty() {
							let bytes = a.inspect_with_uninit_and_ptr_outside_interpreter(start..a.len());
							let mut v: u128 = 0;
							for (i, b) in bytes.iter().enumerate() {
								v |= (*b as u128) << (8 * i);
							}
							o.put("ref_v", J::Int(v as i128));
							if let ty::Adt(adt, _) = inner.kind() {
								let bits = bytes.len() * 8;
								let mask = if bits >= 128 { u128::MAX } else { (1u128 << bits) - 1 };
								for (vidx, d) in adt.discriminants(tcx) {
									if d.val & mask == v {
										o.put("ref_variant", J::s(adt.variant(vidx).name.to_string()));
										break;
									}
								}
							}
						}
					}
				}
				if let ty::Adt(adt, adt_args) = inner.kind() {
					if adt.is_struct() {
						let (prov, off) = ptr.into_raw_parts();
						if let Some(rustc_middle::mir::interpret::GlobalAlloc::Memory(alloc)) =
							tcx.try_get_global_alloc(prov.alloc_id())
						{
							let a = alloc.inner();
							let start = off.bytes_usize();
							let tenv = TypingEnv::fully_monomorphized();
							if let Ok(layout) = tcx.layout_of(tenv.as_query_input(*inner)) {
								let mut fields = J::obj();
								let mut okf = a.provenance().ptrs().is_empty();
								for (i, f) in adt.non_enum_variant().fields.iter().enumerate() {
									let fty = f.ty(tcx, adt_args);
									let foff = start + layout.fields.offset(i).bytes_usize();
									let fsz = match fty.kind() {
										ty::Int(_) | ty::Uint(_) | ty::Bool | ty::Char => {
											tcx.layout_of(tenv.as_query_input(fty)).map(|l| l.size.bytes_usize()).unwrap_or(0)
										}
										_ => 0,
									};
									if fsz == 0 || foff + fsz > a.len() {
										okf = false;
										continue;
									}
									let bytes = a.inspect_with_uninit_and_ptr_outside_interpreter(foff..foff + fsz);
									let mut v: u128 = 0;
									for (k, b) in bytes.iter().enumerate() {
										v |= (*b as u128) << (8 * k);
									}
									fields.put(&f.name.to_string(), J::Int(v as i128));
								}
								o.put("ref_struct", J::s(path(tcx, adt.did())));
								o.put("ref_fields", fields);
								o.put("ref_fields_complete", J::Bool(okf));
							}
						}
					}
				}
				if is_bytes {
					let (prov, off) = ptr.into_raw_parts();
					if let Some(rustc_middle::mir::interpret::GlobalAlloc::Memory(alloc)) =
						tcx.try_get_global_alloc(prov.alloc_id())
					{
						let a = alloc.inner();
						let start = off.bytes_usize();
						if start <= a.len() {
							let bytes = a.inspect_with_uninit_and_ptr_outside_interpreter(start..a.len());
							put_bytes(o, bytes);
						}
					}
				}
			}
		}
		ConstValue::Slice { alloc_id, meta } => {
			if let ty::Ref(_, inner, _) = ty.kind() {
				if let ty::Slice(e) = inner.kind() {
					if !matches!(e.kind(), ty::Uint(ty::UintTy::U8)) {
						if let Some(d) = decode_mem(tcx, alloc_id, 0, *inner, Some(meta), 0) {
							o.put("decoded", d);
						}
					}
				}
				let is_bytes = match inner.kind() {
					ty::Slice(e) => matches!(e.kind(), ty::Uint(ty::UintTy::U8)),
					ty::Str => true,
					_ => false,
				};
				if is_bytes {
					if let Some(rustc_middle::mir::interpret::GlobalAlloc::Memory(alloc)) =
						tcx.try_get_global_alloc(alloc_id)
					{
						let a = alloc.inner();
						let n = meta as usize;
						if n <= a.len() {
							let bytes = a.inspect_with_uninit_and_ptr_outside_interpreter(0..n);
							put_bytes(o, bytes);
						}
					}
				}
			}
		}
		ConstValue::Indirect { alloc_id, offset } => {
			o.put("indirect", J::Bool(true));
			if let Some(d) = decode_mem(tcx, alloc_id, offset.bytes_usize(), ty, None, 0) {
				o.put("decoded", d);
			}
		}
	}
}

/// Decodes constant memory of type `ty` at `off` in allocation `aid`: integers, fieldless enums, `&str`,
/// references, slices, arrays, tuples and plain structs (lookup tables such as `[(&str, Format); N]`).
pub fn decode_mem<'tcx>(tcx: TyCtxt<'tcx>, aid: mir::interpret::AllocId, off: usize, ty: Ty<'tcx>, meta: Option<u64>, depth: u32) -> Option<J> {
	use rustc_middle::mir::interpret::GlobalAlloc;
	if depth > 6 {
		return None;
	}
	let Some(GlobalAlloc::Memory(alloc)) = tcx.try_get_global_alloc(aid) else { return None };
	let a = alloc.inner();
	let tenv = TypingEnv::fully_monomorphized();
	let read_uint = |at: usize, n: usize| -> Option<u128> {
		if n == 0 || n > 16 || at + n > a.len() {
			return None;
		}
		let bytes = a.inspect_with_uninit_and_ptr_outside_interpreter(at..at + n);
		let mut v: u128 = 0;
		for (k, b) in bytes.iter().enumerate() {
			v |= (*b as u128) << (8 * k);
		}
		Some(v)
	};
	match ty.kind() {
		ty::Str => {
			let n = meta? as usize;
			if off + n > a.len() || n > 1 << 16 {
				return None;
			}
			let bytes = a.inspect_with_uninit_and_ptr_outside_interpreter(off..off + n);
			std::str::from_utf8(bytes).ok().map(|s| J::obj().set("str", J::s(s)))
		}
		ty::Slice(e) => {
			let n = meta? as usize;
			let el = tcx.layout_of(tenv.as_query_input(*e)).ok()?;
			if n > 4096 {
				return None;
			}
			let mut items = vec![];
			for i in 0..n {
				items.push(decode_mem(tcx, aid, off + i * el.size.bytes_usize(), *e, None, depth + 1)?);
			}
			Some(J::obj().set("seq", J::Arr(items)))
		}
		ty::Array(e, len) => {
			let n = len.try_to_target_usize(tcx)? as usize;
			let el = tcx.layout_of(tenv.as_query_input(*e)).ok()?;
			if n > 4096 {
				return None;
			}
			let mut items = vec![];
			for i in 0..n {
				items.push(decode_mem(tcx, aid, off + i * el.size.bytes_usize(), *e, None, depth + 1)?);
			}
			Some(J::obj().set("seq", J::Arr(items)))
		}
		ty::Bool => read_uint(off, 1).map(|v| J::obj().set("v", J::Bool(v != 0))),
		ty::Int(_) => {
			let l = tcx.layout_of(tenv.as_query_input(ty)).ok()?;
			let n = l.size.bytes_usize();
			let v = read_uint(off, n)?;
			let shift = 128 - 8 * n as u32;
			Some(J::obj().set("v", J::Int(((v << shift) as i128) >> shift)))
		}
		ty::Uint(_) | ty::Char => {
			let l = tcx.layout_of(tenv.as_query_input(ty)).ok()?;
			read_uint(off, l.size.bytes_usize()).map(|v| J::obj().set("v", J::Int(v as i128)))
		}
		ty::Ref(_, inner, _) => {
			let psz = tcx.data_layout.pointer_size().bytes_usize();
			let prov = a.provenance().ptrs().get(&rustc_abi::Size::from_bytes(off as u64))?;
			let toff = read_uint(off, psz)? as usize;
			let m = match inner.kind() {
				ty::Str | ty::Slice(_) => Some(read_uint(off + psz, psz)? as u64),
				_ => None,
			};
			decode_mem(tcx, prov.alloc_id(), toff, *inner, m, depth + 1)
		}
		ty::Tuple(tys) => {
			let l = tcx.layout_of(tenv.as_query_input(ty)).ok()?;
			let mut items = vec![];
			for (i, t) in tys.iter().enumerate() {
				items.push(decode_mem(tcx, aid, off + l.fields.offset(i).bytes_usize(), t, None, depth + 1)?);
			}
			Some(J::obj().set("tuple", J::Arr(items)))
		}
		ty::Adt(adt, args) if adt.is_enum() && adt.variants().iter().all(|v| v.fields.is_empty()) => {
			let l = tcx.layout_of(tenv.as_query_input(ty)).ok()?;
			let n = l.size.bytes_usize();
			if n == 0 {
				let v = adt.variants().iter().next()?;
				return Some(J::obj().set("variant", J::s(v.name.to_string())));
			}
			let bits = read_uint(off, n)?;
			let mask = if n >= 16 { u128::MAX } else { (1u128 << (8 * n)) - 1 };
			let _ = args;
			for (vidx, d) in adt.discriminants(tcx) {
				if d.val & mask == bits {
					return Some(J::obj().set("variant", J::s(adt.variant(vidx).name.to_string())).set("adt", J::s(path(tcx, adt.did()))));
				}
			}
			None
		}
		ty::Adt(adt, args) if adt.is_struct() => {
			let l = tcx.layout_of(tenv.as_query_input(ty)).ok()?;
			let mut fields = J::obj();
			for (i, f) in adt.non_enum_variant().fields.iter().enumerate() {
				let fty = f.ty(tcx, args);
				fields.put(&f.name.to_string(), decode_mem(tcx, aid, off + l.fields.offset(i).bytes_usize(), fty, None, depth + 1)?);
			}
			Some(J::obj().set("struct", J::s(path(tcx, adt.did()))).set("fields", fields))
		}
		_ => None,
	}
}

fn put_bytes(o: &mut J, bytes: &[u8]) {
	if bytes.len() > 1 << 16 {
		o.put("bytes_len", J::Int(bytes.len() as i128));
		return;
	}
	if let Ok(s) = std::str::from_utf8(bytes) {
		o.put("str", J::s(s));
	}
	o.put("bytes", J::Arr(bytes.iter().map(|b| J::Int(*b as i128)).collect()));
}
