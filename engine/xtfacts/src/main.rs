//! xtfacts: a rustc_private driver that dumps the type-checked program of the
//! crate under analysis (MIR with resolved callees, HIR pattern tables, unsafe
//! inventory, ADT and impl facts) as one JSON file per crate target.
//!
//! It is injected with RUSTC_WORKSPACE_WRAPPER, so argv[1] is the real rustc
//! path and is dropped. Output: $XTFACTS_OUT/<crate>-<lib|bin>.json, written in
//! a single write per process.

#![feature(rustc_private)]
#![allow(clippy::all)]

extern crate rustc_abi;
extern crate rustc_ast;
extern crate rustc_data_structures;
extern crate rustc_driver;
extern crate rustc_hir;
extern crate rustc_interface;
extern crate rustc_middle;
extern crate rustc_session;
extern crate rustc_span;

mod hirfacts;
mod json;
mod mirfacts;

use json::J;
use rustc_driver::Compilation;
use rustc_hir::def::DefKind;
use rustc_middle::ty::TyCtxt;

struct Cb;

impl rustc_driver::Callbacks for Cb {
	fn after_analysis<'tcx>(
		&mut self,
		_compiler: &rustc_interface::interface::Compiler,
		tcx: TyCtxt<'tcx>,
	) -> Compilation {
		let name = tcx.crate_name(rustc_hir::def_id::LOCAL_CRATE).to_string();
		let want = std::env::var("XTFACTS_CRATES").unwrap_or_else(|_| "xt,xt_controls".to_string());
		if !want.split(',').any(|w| w == name) {
			return Compilation::Continue;
		}
		let outdir = match std::env::var("XTFACTS_OUT") {
			Ok(d) => d,
			Err(_) => return Compilation::Continue,
		};
		let is_bin = tcx
			.crate_types()
			.iter()
			.any(|t| matches!(t, rustc_session::config::CrateType::Executable));
		let kind = if is_bin { "bin" } else { "lib" };

		let mut root = J::obj();
		root.put("crate", J::s(name.clone()));
		root.put("kind", J::s(kind));
		root.put(
			"debug_assertions",
			J::Bool(tcx.sess.opts.debug_assertions),
		);
		root.put(
			"overflow_checks",
			J::Bool(tcx.sess.overflow_checks()),
		);
		root.put(
			"panic_strategy",
			J::s(format!("{:?}", tcx.sess.panic_strategy())),
		);
		root.put("is_test_harness", J::Bool(tcx.sess.is_test_crate()));

		let mut bodies = vec![];
		let mut adts = mirfacts::AdtCollector::new();
		for ldid in tcx.hir_body_owners() {
			let did = ldid.to_def_id();
			let dk = tcx.def_kind(did);
			if !matches!(dk, DefKind::Fn | DefKind::AssocFn | DefKind::Closure) {
				continue;
			}
			bodies.push(mirfacts::body_facts(tcx, ldid, &mut adts));
		}
		root.put("bodies", J::Arr(bodies));
		// initialisers of non-generic const / static items (dispatch tables and the like)
		let mut const_bodies = vec![];
		for ldid in tcx.hir_body_owners() {
			let did = ldid.to_def_id();
			let dk = tcx.def_kind(did);
			if !matches!(dk, DefKind::Const { .. } | DefKind::Static { .. }) {
				continue;
			}
			if tcx.generics_of(did).count() != 0 || tcx.def_span(did).from_expansion() {
				continue;
			}
			const_bodies.push(mirfacts::body_facts(tcx, ldid, &mut adts));
		}
		root.put("const_bodies", J::Arr(const_bodies));
		root.put("adts", adts.finish(tcx));
		root.put("impls", hirfacts::impl_facts(tcx));
		root.put("traits", hirfacts::trait_facts(tcx));
		root.put("hir", hirfacts::hir_facts(tcx));
		root.put("consts", hirfacts::const_facts(tcx));

		let mut out = String::new();
		root.write(&mut out);
		let path = format!("{outdir}/{name}-{kind}.json");
		let tmp = format!("{path}.tmp{}", std::process::id());
		std::fs::write(&tmp, out).expect("xtfacts: cannot write fact file");
		std::fs::rename(&tmp, &path).expect("xtfacts: cannot move fact file");
		Compilation::Continue
	}
}

fn main() {
	let mut args: Vec<String> = std::env::args().collect();
	// RUSTC_WORKSPACE_WRAPPER: argv = [wrapper, rustc, args...]
	if args.len() > 1 && (args[1].ends_with("rustc") || args[1].contains("/rustc")) {
		args.remove(1);
	}
	rustc_driver::run_compiler(&args, &mut Cb);
}
