//! HIR facts: pattern tables (match / let / let-else), user unsafe blocks,
//! impl inventories, named constants.

use crate::json::J;
use crate::mirfacts::{path, span_j, ty_str, value_j};
use rustc_hir as hir;
use rustc_hir::def::{DefKind, Res};
use rustc_hir::def_id::LocalDefId;
use rustc_hir::intravisit::{self, Visitor};
use rustc_middle::ty::{self, TyCtxt, TypeckResults};

pub fn impl_facts(tcx: TyCtxt<'_>) -> J {
	ty::print::with_no_trimmed_paths!(impl_facts_inner(tcx))
}

fn impl_facts_inner(tcx: TyCtxt<'_>) -> J {
	let mut out = vec![];
	for ldid in tcx.hir_crate_items(()).definitions() {
		let did = ldid.to_def_id();
		if !matches!(tcx.def_kind(did), DefKind::Impl { .. }) {
			continue;
		}
		let mut o = J::obj();
		let st = tcx.type_of(did).instantiate_identity().skip_norm_wip();
		o.put("self_ty", J::s(ty_str(st)));
		if let ty::Adt(def, _) = st.peel_refs().kind() {
			o.put("self_adt", J::s(path(tcx, def.did())));
		}
		if let Some(tr) = tcx.impl_opt_trait_ref(did) {
			let tr = tr.instantiate_identity().skip_norm_wip();
			o.put("trait", J::s(path(tcx, tr.def_id)));
			o.put("trait_ref", J::s(format!("{tr}")));
		}
		o.put("span", span_j(tcx, tcx.def_span(did)));
		o.put("from_expansion", J::Bool(tcx.def_span(did).from_expansion()));
		let mut items = vec![];
		for it in tcx.associated_items(did).in_definition_order() {
			items.push(
				J::obj()
					.set("name", J::s(it.name().to_string()))
					.set("def", J::s(path(tcx, it.def_id)))
					.set("kind", J::s(format!("{:?}", it.kind).chars().take(24).collect::<String>())),
			);
		}
		o.put("items", J::Arr(items));
		out.push(o);
	}
	J::Arr(out)
}

/// Crate-local traits with, per method, its where-clauses (own predicates) and return type, so that a
/// private trait can be recognised by the shape of its methods rather than by its name.
pub fn trait_facts(tcx: TyCtxt<'_>) -> J {
	ty::print::with_no_trimmed_paths!(trait_facts_inner(tcx))
}

fn trait_facts_inner(tcx: TyCtxt<'_>) -> J {
	let mut out = vec![];
	for ldid in tcx.hir_crate_items(()).definitions() {
		let did = ldid.to_def_id();
		if !matches!(tcx.def_kind(did), DefKind::Trait) {
			continue;
		}
		let mut o = J::obj();
		o.put("path", J::s(path(tcx, did)));
		o.put("span", span_j(tcx, tcx.def_span(did)));
		let mut items = vec![];
		for it in tcx.associated_items(did).in_definition_order() {
			let mut io = J::obj()
				.set("name", J::s(it.name().to_string()))
				.set("def", J::s(path(tcx, it.def_id)))
				.set("kind", J::s(format!("{:?}", it.kind).chars().take(24).collect::<String>()));
			if matches!(tcx.def_kind(it.def_id), DefKind::AssocFn) {
				let preds: Vec<J> = tcx
					.predicates_of(it.def_id)
					.predicates
					.iter()
					.map(|(c, _)| J::s(format!("{c}")))
					.collect();
				io.put("predicates", J::Arr(preds));
				let sig = tcx.fn_sig(it.def_id).instantiate_identity().skip_norm_wip().skip_binder();
				io.put("ret_ty", J::s(ty_str(sig.output())));
				io.put("n_inputs", J::Int(sig.inputs().len() as i128));
				io.put("n_type_params", J::Int(tcx.generics_of(it.def_id).own_params.iter().filter(|p| matches!(p.kind, ty::GenericParamDefKind::Type { .. })).count() as i128));
			}
			items.push(io);
		}
		o.put("items", J::Arr(items));
		out.push(o);
	}
	J::Arr(out)
}

pub fn const_facts(tcx: TyCtxt<'_>) -> J {
	ty::print::with_no_trimmed_paths!(const_facts_inner(tcx))
}

fn const_facts_inner(tcx: TyCtxt<'_>) -> J {
	let mut out = vec![];
	for ldid in tcx.hir_crate_items(()).definitions() {
		let did = ldid.to_def_id();
		if !matches!(tcx.def_kind(did), DefKind::Const { .. } | DefKind::AssocConst { .. }) {
			continue;
		}
		let mut o = J::obj();
		o.put("path", J::s(path(tcx, did)));
		let t = tcx.type_of(did).instantiate_identity().skip_norm_wip();
		o.put("ty", J::s(ty_str(t)));
		o.put("span", span_j(tcx, tcx.def_span(did)));
		if !tcx.generics_of(did).requires_monomorphization(tcx) {
			if let Ok(v) = tcx.const_eval_poly(did) {
				value_j(tcx, v, t, &mut o);
			}
		}
		out.push(o);
	}
	J::Arr(out)
}

pub fn hir_facts(tcx: TyCtxt<'_>) -> J {
	ty::print::with_no_trimmed_paths!(hir_facts_inner(tcx))
}

fn hir_facts_inner(tcx: TyCtxt<'_>) -> J {
	let mut tables = vec![];
	let mut unsafes = vec![];
	let mut tails = vec![];
	for ldid in tcx.hir_body_owners() {
		let dk = tcx.def_kind(ldid.to_def_id());
		if !matches!(dk, DefKind::Fn | DefKind::AssocFn | DefKind::Closure) {
			continue;
		}
		let body = tcx.hir_body_owned_by(ldid);
		let typeck = tcx.typeck(ldid);
		let mut v = V { tcx, typeck, owner: ldid, tables: &mut tables, unsafes: &mut unsafes };
		v.visit_expr(body.value);
		// tail expression of the body (what the function evaluates to when it falls through)
		let mut tail = body.value;
		loop {
			match tail.kind {
				hir::ExprKind::Block(b, _) => match b.expr {
					Some(e) => tail = e,
					None => break,
				},
				hir::ExprKind::DropTemps(e) => tail = e,
				_ => break,
			}
		}
		tails.push(
			J::obj()
				.set("owner", J::s(path(tcx, ldid.to_def_id())))
				.set("tail", v.expr_j(tail, 0)),
		);
	}
	J::obj().set("tables", J::Arr(tables)).set("unsafe_blocks", J::Arr(unsafes)).set("tails", J::Arr(tails))
}

struct V<'a, 'tcx> {
	tcx: TyCtxt<'tcx>,
	typeck: &'tcx TypeckResults<'tcx>,
	owner: LocalDefId,
	tables: &'a mut Vec<J>,
	unsafes: &'a mut Vec<J>,
}

impl<'a, 'tcx> V<'a, 'tcx> {
	fn snippet(&self, span: rustc_span::Span) -> String {
		self.tcx
			.sess
			.source_map()
			.span_to_snippet(span)
			.unwrap_or_default()
			.chars()
			.take(160)
			.collect()
	}

	fn res_j(&self, qpath: &hir::QPath<'tcx>, id: hir::HirId) -> J {
		match self.typeck.qpath_res(qpath, id) {
			Res::Def(kind, did) => J::obj()
				.set("k", J::s("path"))
				.set("def_kind", J::s(format!("{kind:?}")))
				.set("res", J::s(path(self.tcx, did))),
			Res::Local(_) => J::obj().set("k", J::s("local")).set("name", J::s(self.snippet(qpath.span()))),
			other => J::obj().set("k", J::s("res")).set("dbg", J::s(format!("{other:?}"))),
		}
	}

	fn lit_j(&self, lit: &hir::Lit, negated: bool) -> J {
		use rustc_ast::LitKind;
		let mut o = J::obj().set("k", J::s("lit"));
		match &lit.node {
			LitKind::Str(s, _) => o.put("str", J::s(s.to_string())),
			LitKind::ByteStr(b, _) => {
				o.put("bytes", J::Arr(b.as_byte_str().iter().map(|x| J::Int(*x as i128)).collect()))
			}
			LitKind::Byte(b) => o.put("int", J::Int(*b as i128)),
			LitKind::Char(c) => o.put("char", J::Int(*c as u32 as i128)),
			LitKind::Int(n, _) => {
				let v = n.get() as i128;
				o.put("int", J::Int(if negated { -v } else { v }))
			}
			LitKind::Bool(b) => o.put("bool", J::Bool(*b)),
			other => o.put("dbg", J::s(format!("{other:?}"))),
		}
		o
	}

	fn patexpr_j(&self, pe: &hir::PatExpr<'tcx>) -> J {
		match &pe.kind {
			hir::PatExprKind::Lit { lit, negated } => self.lit_j(lit, *negated),
			hir::PatExprKind::Path(q) => {
				let mut r = self.res_j(q, pe.hir_id);
				// evaluate constant paths where possible
				if let Res::Def(DefKind::Const { .. } | DefKind::AssocConst { .. }, did) =
					self.typeck.qpath_res(q, pe.hir_id)
				{
					if !self.tcx.generics_of(did).requires_monomorphization(self.tcx) {
						if let Ok(v) = self.tcx.const_eval_poly(did) {
							let t = self.tcx.type_of(did).instantiate_identity().skip_norm_wip();
							value_j(self.tcx, v, t, &mut r);
						}
					}
				}
				r
			}
		}
	}

	fn pat_j(&self, pat: &hir::Pat<'tcx>) -> J {
		use hir::PatKind::*;
		match &pat.kind {
			Wild => J::obj().set("k", J::s("wild")),
			Missing => J::obj().set("k", J::s("missing")),
			Never => J::obj().set("k", J::s("never")),
			Binding(_, _, ident, sub) => {
				let mut o = J::obj().set("k", J::s("binding")).set("name", J::s(ident.name.to_string()));
				if let Some(s) = sub {
					o.put("sub", self.pat_j(s));
				}
				o
			}
			Struct(q, fields, _) => J::obj()
				.set("k", J::s("struct"))
				.set("path", self.res_j(q, pat.hir_id))
				.set(
					"fields",
					J::Arr(
						fields
							.iter()
							.map(|f| {
								J::obj().set("name", J::s(f.ident.name.to_string())).set("pat", self.pat_j(f.pat))
							})
							.collect(),
					),
				),
			TupleStruct(q, pats, _) => J::obj()
				.set("k", J::s("tuplestruct"))
				.set("path", self.res_j(q, pat.hir_id))
				.set("pats", J::Arr(pats.iter().map(|p| self.pat_j(p)).collect())),
			Or(pats) => J::obj().set("k", J::s("or")).set("alts", J::Arr(pats.iter().map(|p| self.pat_j(p)).collect())),
			Tuple(pats, _) => {
				J::obj().set("k", J::s("tuple")).set("pats", J::Arr(pats.iter().map(|p| self.pat_j(p)).collect()))
			}
			Box(p) => J::obj().set("k", J::s("box")).set("sub", self.pat_j(p)),
			Deref(p) => J::obj().set("k", J::s("derefpat")).set("sub", self.pat_j(p)),
			Ref(p, _, _) => J::obj().set("k", J::s("ref")).set("sub", self.pat_j(p)),
			Expr(pe) => self.patexpr_j(pe),
			Guard(p, _) => J::obj().set("k", J::s("guardpat")).set("sub", self.pat_j(p)),
			Range(lo, hi, end) => {
				let mut o = J::obj().set("k", J::s("range"));
				if let Some(l) = lo {
					o.put("lo", self.patexpr_j(l));
				}
				if let Some(h) = hi {
					o.put("hi", self.patexpr_j(h));
				}
				o.put("inclusive", J::Bool(matches!(end, hir::RangeEnd::Included)));
				o
			}
			Slice(before, mid, after) => {
				let mut o = J::obj().set("k", J::s("slice"));
				o.put("before", J::Arr(before.iter().map(|p| self.pat_j(p)).collect()));
				if let Some(m) = mid {
					o.put("mid", self.pat_j(m));
				}
				o.put("after", J::Arr(after.iter().map(|p| self.pat_j(p)).collect()));
				o
			}
			Err(_) => J::obj().set("k", J::s("err")),
		}
	}

	fn expr_j(&self, e: &hir::Expr<'tcx>, depth: u32) -> J {
		use hir::ExprKind::*;
		let line = self.tcx.sess.source_map().lookup_char_pos(e.span.source_callsite().lo()).line as i128;
		if depth > 6 {
			return J::obj().set("k", J::s("deep")).set("line", J::Int(line));
		}
		let o = match &e.kind {
			Path(q) => self.res_j(q, e.hir_id),
			Lit(l) => self.lit_j(l, false),
			Call(f, args) => J::obj()
				.set("k", J::s("call"))
				.set("f", self.expr_j(f, depth + 1))
				.set("args", J::Arr(args.iter().map(|a| self.expr_j(a, depth + 1)).collect())),
			MethodCall(seg, recv, args, _) => {
				let mut o = J::obj().set("k", J::s("mcall")).set("name", J::s(seg.ident.name.to_string()));
				if let Some(d) = self.typeck.type_dependent_def_id(e.hir_id) {
					o.put("def", J::s(path(self.tcx, d)));
				}
				o.put("recv", self.expr_j(recv, depth + 1));
				o.put("args", J::Arr(args.iter().map(|a| self.expr_j(a, depth + 1)).collect()));
				o
			}
			Ret(Some(inner)) => J::obj().set("k", J::s("ret")).set("e", self.expr_j(inner, depth + 1)),
			Ret(None) => J::obj().set("k", J::s("ret")),
			Block(b, _) => {
				if b.stmts.is_empty() {
					if let Some(t) = b.expr {
						return self.expr_j(t, depth);
					}
				}
				let mut o = J::obj().set("k", J::s("block")).set("n_stmts", J::Int(b.stmts.len() as i128));
				if let Some(t) = b.expr {
					o.put("tail", self.expr_j(t, depth + 1));
				}
				o
			}
			Tup(es) => J::obj().set("k", J::s("tup")).set("es", J::Arr(es.iter().map(|a| self.expr_j(a, depth + 1)).collect())),
			DropTemps(inner) | Use(inner, _) => return self.expr_j(inner, depth),
			AddrOf(_, _, inner) => J::obj().set("k", J::s("addrof")).set("e", self.expr_j(inner, depth + 1)),
			Unary(op, inner) => J::obj()
				.set("k", J::s("unary"))
				.set("op", J::s(format!("{op:?}")))
				.set("e", self.expr_j(inner, depth + 1)),
			Struct(q, fields, _) => J::obj()
				.set("k", J::s("structlit"))
				.set("path", self.res_j(q, e.hir_id))
				.set(
					"fields",
					J::Arr(
						fields
							.iter()
							.map(|f| {
								J::obj()
									.set("name", J::s(f.ident.name.to_string()))
									.set("e", self.expr_j(f.expr, depth + 1))
							})
							.collect(),
					),
				),
			Field(inner, id) => J::obj()
				.set("k", J::s("fieldexpr"))
				.set("name", J::s(id.name.to_string()))
				.set("e", self.expr_j(inner, depth + 1)),
			Match(..) => J::obj().set("k", J::s("match")),
			If(..) => J::obj().set("k", J::s("if")),
			Closure(c) => J::obj().set("k", J::s("closure")).set("def", J::s(path(self.tcx, c.def_id.to_def_id()))),
			other => {
				let name: String = format!("{other:?}").chars().take_while(|c| c.is_alphanumeric()).collect();
				J::obj().set("k", J::s("other")).set("kind", J::s(name))
			}
		};
		o.set("line", J::Int(line)).set("ty", J::s(ty_str(self.typeck.expr_ty(e))))
	}
}

impl<'a, 'tcx> Visitor<'tcx> for V<'a, 'tcx> {
	fn visit_expr(&mut self, e: &'tcx hir::Expr<'tcx>) {
		match &e.kind {
			hir::ExprKind::Match(scrut, arms, src) => {
				let mut o = J::obj();
				o.put("form", J::s("match"));
				o.put("source", J::s(format!("{src:?}").chars().take(24).collect::<String>()));
				o.put("owner", J::s(path(self.tcx, self.owner.to_def_id())));
				o.put("span", span_j(self.tcx, e.span));
				o.put("scrutinee", self.expr_j(scrut, 0));
				o.put("scrutinee_ty", J::s(ty_str(self.typeck.expr_ty(scrut))));
				o.put("scrutinee_src", J::s(self.snippet(scrut.span)));
				let mut aj = vec![];
				for arm in arms.iter() {
					let mut a = J::obj();
					a.put("pat", self.pat_j(arm.pat));
					a.put("span", span_j(self.tcx, arm.span));
					a.put("guard", J::Bool(arm.guard.is_some()));
					if let Some(g) = arm.guard {
						a.put("guard_e", self.expr_j(g, 0));
					}
					a.put("body", self.expr_j(arm.body, 0));
					aj.push(a);
				}
				o.put("arms", J::Arr(aj));
				self.tables.push(o);
			}
			hir::ExprKind::Let(l) => {
				let mut o = J::obj();
				o.put("form", J::s("let"));
				o.put("owner", J::s(path(self.tcx, self.owner.to_def_id())));
				o.put("span", span_j(self.tcx, l.span));
				o.put("scrutinee", self.expr_j(l.init, 0));
				o.put("scrutinee_ty", J::s(ty_str(self.typeck.expr_ty(l.init))));
				o.put("scrutinee_src", J::s(self.snippet(l.init.span)));
				o.put("arms", J::Arr(vec![J::obj().set("pat", self.pat_j(l.pat)).set("guard", J::Bool(false))]));
				self.tables.push(o);
			}
			hir::ExprKind::Block(b, _) => {
				if let hir::BlockCheckMode::UnsafeBlock(hir::UnsafeSource::UserProvided) = b.rules {
					let o = J::obj()
						.set("owner", J::s(path(self.tcx, self.owner.to_def_id())))
						.set("span", span_j(self.tcx, b.span))
						.set("from_expansion", J::Bool(b.span.from_expansion()));
					self.unsafes.push(o);
				}
			}
			_ => {}
		}
		intravisit::walk_expr(self, e);
	}

	fn visit_local(&mut self, l: &'tcx hir::LetStmt<'tcx>) {
		if let (Some(init), Some(_els)) = (l.init, l.els) {
			let mut o = J::obj();
			o.put("form", J::s("letelse"));
			o.put("owner", J::s(path(self.tcx, self.owner.to_def_id())));
			o.put("span", span_j(self.tcx, l.span));
			o.put("scrutinee", self.expr_j(init, 0));
			o.put("scrutinee_ty", J::s(ty_str(self.typeck.expr_ty(init))));
			o.put("scrutinee_src", J::s(self.snippet(init.span)));
			o.put("arms", J::Arr(vec![J::obj().set("pat", self.pat_j(l.pat)).set("guard", J::Bool(false))]));
			self.tables.push(o);
		}
		intravisit::walk_local(self, l);
	}
}
