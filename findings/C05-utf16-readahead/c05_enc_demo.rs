use std::cell::RefCell;
use std::io::{self, Read, Write};
use std::rc::Rc;

#[derive(Default)]
struct Log {
	reads: usize,       // number of read() calls that returned a document
	out: Vec<u8>,       // everything handed to the writer
	worst_lag: usize,   // max over reads of (docs asked for) - (docs written)
}

struct DocReader { docs: Vec<Vec<u8>>, next: usize, off: usize, log: Rc<RefCell<Log>> }
impl Read for DocReader {
	fn read(&mut self, buf: &mut [u8]) -> io::Result<usize> {
		let mut log = self.log.borrow_mut();
		if self.next == self.docs.len() || buf.is_empty() { return Ok(0); }
		// asking for (more of) document index `next` (0-based): documents written so far
		let written = log.out.iter().filter(|&&b| b == b'\n').count();
		let lag = self.next.saturating_sub(written);
		if lag > log.worst_lag { log.worst_lag = lag; }
		// at most one document per read() result; a small buffer gets a fraction of it
		let d = &self.docs[self.next][self.off..];
		let n = d.len().min(buf.len());
		buf[..n].copy_from_slice(&d[..n]);
		self.off += n;
		if self.off == self.docs[self.next].len() { self.next += 1; self.off = 0; }
		log.reads += 1;
		Ok(n)
	}
}
struct LogWriter(Rc<RefCell<Log>>);
impl Write for LogWriter {
	fn write(&mut self, b: &[u8]) -> io::Result<usize> { self.0.borrow_mut().out.extend_from_slice(b); Ok(b.len()) }
	fn flush(&mut self) -> io::Result<()> { Ok(()) }
}

fn run(enc: &str, from: Option<xt::Format>) -> usize {
	let n = 2000;
	let docs: Vec<Vec<u8>> = (0..n).map(|i| {
		let text = format!("---\nk: {i}\n");
		match enc {
			"utf8" => text.into_bytes(),
			"utf16le" => text.encode_utf16().flat_map(|u| u.to_le_bytes()).collect(),
			"utf32be" => text.chars().flat_map(|c| (c as u32).to_be_bytes()).collect(),
			_ => unreachable!(),
		}
	}).collect();
	let log = Rc::new(RefCell::new(Log::default()));
	let r = DocReader { docs, next: 0, off: 0, log: log.clone() };
	xt::translate_reader(r, from, xt::Format::Json, LogWriter(log.clone())).unwrap();
	let l = log.borrow();
	assert_eq!(l.out.iter().filter(|&&b| b == b'\n').count(), n);
	l.worst_lag
}

// C05: by the time the reader is asked for data beyond document k+2, document k has been written:
// when asking for document index j (0-based), documents 0..j-3 must be out, i.e. lag = j - written <= 3.
#[test] fn utf8_explicit() { let l = run("utf8", Some(xt::Format::Yaml)); assert!(l <= 3, "lag {l}"); }
#[test] fn utf8_detected() { let l = run("utf8", None); assert!(l <= 3, "lag {l}"); }
#[test] fn utf16le_explicit() { let l = run("utf16le", Some(xt::Format::Yaml)); assert!(l <= 3, "lag {l}"); }
#[test] fn utf16le_detected() { let l = run("utf16le", None); assert!(l <= 3, "lag {l}"); }
#[test] fn utf32be_explicit() { let l = run("utf32be", Some(xt::Format::Yaml)); assert!(l <= 3, "lag {l}"); }
