#!/bin/sh
# Build the fact driver offline and warm the dependency metadata cache (facts for the dev config).
set -e
cd "$(dirname "$0")"
export CARGO_NET_OFFLINE=true
(cd engine/xtfacts && cargo build --release --offline 2>&1 | tail -3)
python3 rules/factgen.py dev
