//! Positive controls for the deny-lists of the static rules: every construct a deny-list rule must
//! be able to see appears here once, so that "zero matches in xt" is never vacuous. This crate is
//! compiled with the same fact driver as xt on every run; it is not part of xt.
#![allow(unused, clippy::all)]

use std::io::{Read, Write};

pub fn reordering_adaptors(v: &mut Vec<u32>) -> Vec<u32> {
	v.sort();
	v.sort_by(|a, b| b.cmp(a));
	v.sort_unstable();
	v.dedup();
	v.retain(|x| *x != 1);
	v.reverse();
	v.swap(0, 1);
	let _ = v.iter().rev().count();
	let _ = v.iter().skip(1).count();
	let _ = v.iter().step_by(2).count();
	let _ = v.iter().take(1).count();
	let _ = v.iter().filter(|x| **x > 1).count();
	let _ = v.iter().filter_map(|x| Some(*x)).count();
	let _ = v.iter().nth(1);
	let _ = v.iter().last();
	let _ = v.iter().skip_while(|x| **x > 1).count();
	let _ = v.iter().take_while(|x| **x > 1).count();
	v.truncate(1);
	v.clone()
}

pub fn slurping(mut r: impl Read) -> std::io::Result<usize> {
	let mut buf = Vec::new();
	r.read_to_end(&mut buf)?;
	let mut s = String::new();
	r.read_to_string(&mut s)?;
	let t = std::io::read_to_string(&mut r)?;
	let whole = std::fs::read("/nonexistent")?;
	let text = std::fs::read_to_string("/nonexistent")?;
	Ok(buf.len() + s.len() + t.len() + whole.len() + text.len())
}

pub fn stdio() {
	let _ = std::io::stdout();
	let _ = std::io::stderr();
	let _ = std::io::stdin();
	print!("x");
	eprint!("x");
	std::process::exit(3);
}

pub unsafe fn unsafe_ops(p: *mut u8, v: &mut Vec<u8>) -> u8 {
	let s = std::slice::from_raw_parts(p, 1);
	let m = std::slice::from_raw_parts_mut(p, 1);
	v.set_len(0);
	let x: u32 = std::mem::transmute(1.0f32);
	let y = std::ptr::read(p);
	std::ptr::write(p, y);
	let z: u8 = std::mem::zeroed();
	let g = *v.get_unchecked(0);
	let w = std::mem::MaybeUninit::<u8>::uninit().assume_init();
	let c = char::from_u32_unchecked(x);
	*p = 7;
	let q = *p;
	s[0] + m[0] + z + g + w + q + (c as u8)
}

pub fn discards(mut w: impl Write) {
	let _ = w.flush();
	w.flush().ok();
	let _ = w.flush().is_ok();
	let _ = w.write(b"x").unwrap_or(0);
	let _ = w.flush().or(Ok::<(), std::io::Error>(()));
}

/// R04.9 positive control: errors filtered out of a fallible iterator (a source that keeps failing never ends).
pub fn skip_errors(r: impl std::io::BufRead) -> usize {
	let a = r.lines().filter_map(Result::ok).count();
	let v: Vec<Result<u8, ()>> = vec![Ok(1), Err(())];
	let b = v.into_iter().flatten().count();
	a + b
}

/// R12.5 positive control: single-attempt writes.
pub fn bare_writes(mut w: impl Write) -> std::io::Result<usize> {
	let a = w.write(b"x")?;
	let b = w.write_vectored(&[std::io::IoSlice::new(b"y")])?;
	Ok(a + b)
}

/// R14.5 positive control: an input opened with extra flags / for writing.
#[cfg(unix)]
pub fn odd_open(p: &std::path::Path) -> std::io::Result<std::fs::File> {
	use std::os::unix::fs::OpenOptionsExt;
	std::fs::OpenOptions::new().read(true).write(true).custom_flags(0o4000).open(p)
}

pub fn panics(v: &[u8], o: Option<u8>, r: Result<u8, ()>) -> u8 {
	let a = v[0];
	let b = &v[1..];
	let c = o.unwrap();
	let d = r.expect("x");
	let (e, _) = v.split_at(1);
	if a == 0 {
		panic!("x");
	}
	if a == 1 {
		unreachable!();
	}
	a + b[0] + c + d + e[0] + (a / c)
}

/// R04.5 positive control: an allocation sized by a size hint.
pub fn hint_sized(it: impl Iterator<Item = u8>) -> Vec<u8> {
	let mut v = Vec::with_capacity(it.size_hint().0);
	v.extend(it);
	v
}

/// Positive control for R04.7: a raw first-byte fast path whose fixstr mask is too wide (it also accepts the
/// negative fixints 0xe0..=0xff and sizes them as strings).
pub fn raw_marker_fast_path(mut input: &[u8], n: u32) -> Option<usize> {
	let mut total = 0;
	for _ in 0..n {
		let size = match input.first() {
			None => return None,
			Some(&b) if b & 0b1010_0000 == 0b1010_0000 => 1 + usize::from(b & 0b0001_1111),
			Some(_) => sized_elsewhere(input)?,
		};
		if size > input.len() {
			return None;
		}
		input = &input[size..];
		total += size;
	}
	Some(total)
}

fn sized_elsewhere(input: &[u8]) -> Option<usize> {
	if input.is_empty() {
		None
	} else {
		Some(1)
	}
}
